#!/venv/bin/python
"""Regenerate MANIFEST.json from the property modules that exist (hplmon/props/cNN.py)."""
import importlib
import json
import os
import sys

HERE = os.path.dirname(os.path.dirname(os.path.abspath(__file__)))
sys.path.insert(0, HERE)

BASELINE = ('cd /repo && /venv/bin/python -m pytest -ra -q -p no:cacheprovider --timeout=900 '
            '--continue-on-collection-errors')

props = [json.loads(l) for l in open(os.path.join(HERE, 'properties.jsonl'))]
checks, na = [], []
for p in props:
    pid = p['id']
    path = os.path.join(HERE, 'hplmon', 'props', pid.lower() + '.py')
    if not os.path.exists(path):
        na.append({'property_id': pid, 'reason': 'check not built yet in this round (see DESIGN.md section 5)'})
        continue
    mod = importlib.import_module(f'hplmon.props.{pid.lower()}')
    if getattr(mod, 'NOT_APPLICABLE', None):
        na.append({'property_id': pid, 'reason': mod.NOT_APPLICABLE})
        continue
    checks.append({
        'property_id': pid,
        'quick_cmd': f'./check {pid} --tier quick',
        'thorough_cmd': f'./check {pid} --tier thorough',
        'evidence_file': f'evidence/{pid}.json',
        'replay_cmd_template': f'./check {pid} --replay {{path}}',
        'engine': 'hplmon',
        'level_claimed': {
            'category': getattr(mod, 'LEVEL', 'exploration'),
            'text': getattr(mod, 'LEVEL_TEXT', mod.RULE + getattr(mod, 'RULE_ADDED', '')),
            'design_ref': f'DESIGN.md section 5, {pid}',
        },
        'level_note': '; '.join(getattr(mod, 'ASSUMPTIONS', [])) or 'oracle tables of DESIGN.md Appendix A',
        'technique': getattr(mod, 'TECHNIQUE', 'runtime monitoring: boundary monitors on the real functions '
                             'judged by an independent reference model over generated workloads'),
    })

manifest = {
    'version': 1,
    'setup_cmd': '/venv/bin/python -m compileall -q hplmon >/dev/null && /venv/bin/python tools/selfcheck.py',
    'hooks': {
        'guard': 'HPL_SPECS_VERIF',
        'enable': 'no source hooks: every monitor is attached from the harness process (wrappers on the public '
                  'API, sys.monitoring, sys.addaudithook); the guard name is reserved and unused',
        'baseline_off_cmd': BASELINE,
        'source_commits': [],
        'add_only': True,
    },
    'engines': [{
        'name': 'hplmon',
        'path': 'hplmon/',
        'serves_properties': [c['property_id'] for c in checks],
        'kind_free_text': 'pure-stdlib runtime-monitoring harness: seeded workload generators over an own abstract '
                          'syntax, boundary recorders on the real hpl API, independent reference models (grammar '
                          'recogniser, evaluator, typing, scoping, schema, trace semantics, type-set algebra), '
                          'three-valued verdicts, known-findings classification after shrinking',
    }],
    'checks': checks,
    'notes': 'exit 0 = held on everything observed; exit 1 + VIOLATION line = unlisted violation; exit 2 + '
             'INCONCLUSIVE line = a deciding monitor was starved or a watchdog fired. VERIF_SEED and VERIF_TIER '
             'are honoured. HPLMON_REPO points the same checks at another checkout (self-validation).',
    'not_applicable': na,
}
with open(os.path.join(HERE, 'MANIFEST.json'), 'w') as f:
    json.dump(manifest, f, indent=1)
    f.write('\n')
print(f'{len(checks)} checks, {len(na)} not applicable')
