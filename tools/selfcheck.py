#!/venv/bin/python
"""Setup-time self check: the harness imports, hpl comes from the repository working tree, and the
reference models agree with hand-computed examples (each model module exposes selftest())."""
import importlib
import os
import sys

HERE = os.path.dirname(os.path.dirname(os.path.abspath(__file__)))
sys.path.insert(0, HERE)
sys.dont_write_bytecode = True
from hplmon import env  # noqa: E402

origin = env.setup_import()
n = 0
for name in sorted(os.listdir(os.path.join(HERE, 'hplmon', 'model'))) + ['../absyn.py', '../gen.py']:
    if not name.endswith('.py') or name.startswith('__'):
        continue
    modname = 'hplmon.' + name[3:-3] if name.startswith('../') else 'hplmon.model.' + name[:-3]
    if not os.path.exists(os.path.join(HERE, *modname.split('.')) + '.py'):
        continue
    mod = importlib.import_module(modname)
    st = getattr(mod, 'selftest', None)
    if st:
        st()
        n += 1
for name in sorted(os.listdir(os.path.join(HERE, 'hplmon', 'props'))):
    if name.startswith('c') and name.endswith('.py'):
        importlib.import_module('hplmon.props.' + name[:-3])
print(f'selfcheck ok: hpl from {origin}; {n} model self-tests passed')
