#!/venv/bin/python
"""Measure starvation floors: run a check with several seeds on the (unchanged) tree and set every floor named by the
property module to 40 % of the smallest value observed.  Usage: tools/tune_floors.py quick C01 C06 ... [--seeds 0 1 2]"""
import json
import os
import subprocess
import sys

HERE = os.path.dirname(os.path.dirname(os.path.abspath(__file__)))
args = sys.argv[1:]
tier = args.pop(0)
seeds = [0, 1, 2]
if '--seeds' in args:
    i = args.index('--seeds')
    seeds = [int(x) for x in args[i + 1:]]
    args = args[:i]
path = os.path.join(HERE, 'floors.json')
floors = json.load(open(path)) if os.path.exists(path) else {}
for pid in args:
    obs = {}
    floors.setdefault(pid, {}).pop(tier, None)
    json.dump(floors, open(path, 'w'), indent=1, sort_keys=True)
    for seed in seeds:
        e = dict(os.environ, VERIF_SEED=str(seed))
        r = subprocess.run([os.path.join(HERE, 'check'), pid, '--tier', tier], env=e, capture_output=True, text=True)
        ev = json.load(open(os.path.join(HERE, 'evidence', pid + '.json')))
        bad = [l for l in r.stdout.splitlines() if l.startswith('VIOLATION')]
        print(pid, tier, 'seed', seed, 'rc', r.returncode, 'wall', ev['wall_s'], 'violations', len(bad), flush=True)
        for l in r.stdout.splitlines():
            if ' violation kind=' in l or l.startswith('INCONCLUSIVE') or ' problem: ' in l:
                print('   ', l[:700], flush=True)
        for name, fr in ev['coverage']['floors'].items():
            obs.setdefault(name, []).append(fr['observed'])
    floors.setdefault(pid, {})[tier] = {name: int(min(v) * 0.4) for name, v in obs.items()}
    print('  ->', floors[pid][tier])
    json.dump(floors, open(path, 'w'), indent=1, sort_keys=True)
