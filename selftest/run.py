#!/venv/bin/python
"""Self-validation: apply each deliberate break to a scratch worktree of the repository (outside /repo and /verif),
confirm the repository's own suite still passes (otherwise the mutant is uninteresting), run the property's check
against it (HPLMON_REPO) and expect exit 1.  Usage: selftest/run.py [--jobs N] [--tier quick] [id-prefix ...]
Results: selftest/results.json (one record per mutant)."""
import concurrent.futures
import json
import os
import re
import shutil
import subprocess
import sys
import tempfile

HERE = os.path.dirname(os.path.abspath(__file__))
VERIF = os.path.dirname(HERE)
REPO = os.environ.get('HPLMON_REPO', '/repo')
sys.path.insert(0, HERE)
from mutants import MUTANTS  # noqa: E402

PYTEST = ['/venv/bin/python', '-m', 'pytest', '-q', '-p', 'no:cacheprovider', '--timeout=900', '-x']


def run_one(m, tier, extra_props=()):
    mid, prop, path, old, new = m[:5]
    occ = m[5] if len(m) > 5 else 0
    wt = tempfile.mkdtemp(prefix=f'hplmut-{mid}-')
    os.rmdir(wt)
    rec = {'id': mid, 'property': prop, 'file': path}
    try:
        subprocess.run(['git', '-C', REPO, 'worktree', 'add', '-q', '--detach', wt, 'HEAD'], check=True,
                       capture_output=True)
        # carry uncommitted changes of the working tree too (checks must follow the working tree)
        diff = subprocess.run(['git', '-C', REPO, 'diff', 'HEAD'], capture_output=True, text=True).stdout
        if diff.strip():
            subprocess.run(['git', '-C', wt, 'apply'], input=diff, text=True, check=True)
        f = os.path.join(wt, path)
        s = open(f, encoding='utf8').read()
        idxs = [x.start() for x in re.finditer(re.escape(old), s)]
        if len(idxs) <= occ:
            rec['status'] = 'pattern-not-found'
            return rec
        i = idxs[occ]
        s = s[:i] + new + s[i + len(old):]
        open(f, 'w', encoding='utf8').write(s)
        e = dict(os.environ, PYTHONPATH=os.path.join(wt, 'src'), PYTHONDONTWRITEBYTECODE='1')
        t = subprocess.run(PYTEST, cwd=wt, env=e, capture_output=True, text=True, timeout=1800)
        tail = t.stdout.strip().splitlines()[-1] if t.stdout.strip() else ''
        rec['suite'] = tail
        if t.returncode != 0:
            rec['status'] = 'suite-fails (uninteresting)'
            return rec
        rec['checks'] = {}
        for pid in (prop,) + tuple(extra_props):
            e2 = dict(os.environ, HPLMON_REPO=wt, HPLMON_EVIDENCE_DIR=os.path.join(wt, '.evidence'), HPLMON_REPLAY_DIR=os.path.join(wt, '.replays'))
            c = subprocess.run([os.path.join(VERIF, 'check'), pid, '--tier', tier], env=e2, capture_output=True,
                               text=True, timeout=3600, cwd=VERIF)
            kinds = sorted(set(re.findall(r'violation kind=(\S+)', c.stdout)))
            wit = re.search(r'violation kind=\S+ stratum=\S+ witness=(.*)', c.stdout)
            rec['checks'][pid] = {'rc': c.returncode, 'kinds': kinds, 'witness': wit.group(1)[:300] if wit else None}
        rc = rec['checks'][prop]['rc']
        rec['status'] = {1: 'caught', 0: 'MISSED', 2: 'inconclusive'}.get(rc, f'rc={rc}')
        return rec
    except Exception as ex:
        rec['status'] = f'harness-error: {ex!r}'[:300]
        return rec
    finally:
        subprocess.run(['git', '-C', REPO, 'worktree', 'remove', '--force', wt], capture_output=True)
        shutil.rmtree(wt, ignore_errors=True)


def main():
    args = sys.argv[1:]
    jobs, tier = 3, 'quick'
    if '--jobs' in args:
        i = args.index('--jobs')
        jobs = int(args[i + 1])
        del args[i:i + 2]
    if '--tier' in args:
        i = args.index('--tier')
        tier = args[i + 1]
        del args[i:i + 2]
    todo = [m for m in MUTANTS if not args or any(m[0].startswith(a) for a in args)]
    path = os.path.join(HERE, 'results.json')
    results = json.load(open(path)) if os.path.exists(path) else {}
    # evidence files are rewritten by every check run: keep the ones of the real tree
    keep = tempfile.mkdtemp(prefix='hplmut-evidence-')
    for f in os.listdir(os.path.join(VERIF, 'evidence')):
        shutil.copy(os.path.join(VERIF, 'evidence', f), keep)
    try:
        with concurrent.futures.ThreadPoolExecutor(max_workers=jobs) as ex:
            for rec in ex.map(lambda m: run_one(m, tier), todo):
                results[rec['id']] = rec
                print(f"{rec['id']:45s} {rec['status']:28s} {rec.get('suite', '')[:40]} "
                      f"{(rec.get('checks') or {}).get(rec['property'], {}).get('kinds', '')}", flush=True)
                json.dump(results, open(path, 'w'), indent=1, sort_keys=True)
    finally:
        for f in os.listdir(keep):
            shutil.copy(os.path.join(keep, f), os.path.join(VERIF, 'evidence', f))
        shutil.rmtree(keep, ignore_errors=True)
    missed = [r for r in results.values() if r['status'] == 'MISSED']
    print(f'{len(results)} mutants recorded; missed: {[r["id"] for r in missed]}')


if __name__ == '__main__':
    main()
