"""Greedy structural minimisation over the abstract syntax, driven by the same oracle that found
the violation (fails(candidate) -> bool).  Bounded by the number of oracle calls."""
from . import absyn as A

LEAVES = (A.fld('x'), A.num('0'), A.num('1'), A.boolean(True), A.fld('p'), A.string('a'))


def _expr_candidates(e):
    """Smaller variants of expression e (whole-expression replacements), most aggressive first."""
    t = e[0]
    kids = A.children(e)
    # 1. replace by a child
    for k in kids:
        if k[0] != 'this':
            yield k
    # 2. replace by a canonical leaf
    if A.size(e) > 1:
        for l in LEAVES:
            yield l
    # 3. local simplifications
    if t == 'set' and len(e[1]) > 1:
        for i in range(len(e[1])):
            yield ('set', e[1][:i] + e[1][i + 1:])
    if t == 'range' and (e[3] or e[4]):
        yield ('range', e[1], e[2], False, False)
    if t == 'call' and len(e[2]) > 1:
        for i in range(len(e[2])):
            yield ('call', e[1], e[2][:i] + e[2][i + 1:])
    if t == 'lit' and e[1] == 'num' and e[2] not in ('0', '1', '2'):
        yield A.num('1')
        yield A.num('2')
    if t == 'lit' and e[1] == 'str' and e[2] != '"a"':
        yield A.string('a')
    if t == 'field' and e[1] != A.THIS and e[1][0] in ('field', 'index'):
        yield ('field', A.THIS, e[2])
    if t == 'field' and len(e[2]) > 1 and e[1] == A.THIS:
        yield ('field', e[1], 'x')
    if t == 'quant':
        yield ('quant', e[1], e[2], A.fld('xs'), e[4])
    # 4. recurse into children
    for i, k in enumerate(kids):
        for c in _expr_candidates(k):
            ks = list(kids)
            ks[i] = c
            try:
                yield A.rebuild(e, ks)
            except Exception:
                continue


def shrink_expr(e, fails, max_calls=250):
    calls = 0
    improved = True
    while improved and calls < max_calls:
        improved = False
        seen = set()
        for c in _expr_candidates(e):
            if c == e or c in seen or A.size(c) > A.size(e):
                continue
            if A.size(c) == A.size(e) and repr(c) >= repr(e):
                continue
            seen.add(c)
            calls += 1
            ok = False
            try:
                ok = fails(c)
            except Exception:
                ok = False
            if ok:
                e = c
                improved = True
                break
            if calls >= max_calls:
                break
    return e


def _event_candidates(ev):
    if ev[0] == 'disj':
        for k in ev[1]:
            yield k
        if len(ev[1]) > 2:
            for i in range(len(ev[1])):
                yield ('disj', ev[1][:i] + ev[1][i + 1:])
        for i, k in enumerate(ev[1]):
            for c in _event_candidates(k):
                yield ('disj', ev[1][:i] + (c,) + ev[1][i + 1:])
        return
    _, topic, alias, pred = ev
    if pred is not None:
        yield ('ev', topic, alias, None)
    if alias is not None:
        yield ('ev', topic, None, pred)
    if len(topic) > 1:
        yield ('ev', topic[0] if topic[0].isalpha() else 'a', alias, pred)
    if pred is not None:
        for c in _expr_candidates(pred):
            yield ('ev', topic, alias, c)


def _prop_candidates(p):
    _, meta, scope, pat = p
    if meta:
        yield ('prop', (), scope, pat)
        for i in range(len(meta)):
            yield ('prop', meta[:i] + meta[i + 1:], scope, pat)
    if pat[4] is not None:
        yield ('prop', meta, scope, pat[:4] + (None,))
        if pat[4] != ('1', 's'):
            yield ('prop', meta, scope, pat[:4] + (('1', 's'),))
    if scope[1] != 'globally':
        yield ('prop', meta, ('scope', 'globally', None, None), pat)
        if scope[1] == 'after_until':
            yield ('prop', meta, ('scope', 'after', scope[2], None), pat)
            yield ('prop', meta, ('scope', 'until', None, scope[3]), pat)
    if pat[1] in ('causes', 'forbids', 'requires'):
        yield ('prop', meta, scope, ('pat', 'no', pat[2], None, pat[4]))
        yield ('prop', meta, scope, ('pat', 'no', pat[3], None, pat[4]))
        yield ('prop', meta, scope, ('pat', 'some', pat[2], None, pat[4]))
    for idx in (2, 3):
        if scope[idx] is not None:
            for c in _event_candidates(scope[idx]):
                yield ('prop', meta, scope[:idx] + (c,) + scope[idx + 1:], pat)
    for idx in (2, 3):
        if pat[idx] is not None:
            for c in _event_candidates(pat[idx]):
                yield ('prop', meta, scope, pat[:idx] + (c,) + pat[idx + 1:])


def _psize(p):
    n = len(repr(p))
    return n


def shrink_prop(p, fails, max_calls=250):
    calls = 0
    improved = True
    while improved and calls < max_calls:
        improved = False
        seen = set()
        for c in _prop_candidates(p):
            if c == p or c in seen or _psize(c) >= _psize(p):
                continue
            seen.add(c)
            calls += 1
            ok = False
            try:
                ok = fails(c)
            except Exception:
                ok = False
            if ok:
                p = c
                improved = True
                break
            if calls >= max_calls:
                break
    return p


def shrink_list(items, fails, max_calls=60):
    """Drop elements of a list while fails(list) stays true."""
    items = list(items)
    calls = 0
    i = 0
    while i < len(items) and calls < max_calls and len(items) > 1:
        c = items[:i] + items[i + 1:]
        calls += 1
        try:
            ok = fails(c)
        except Exception:
            ok = False
        if ok:
            items = c
        else:
            i += 1
    return items
