"""Field-by-field comparator: own abstract tree  <->  hpl AST (read through public attributes)."""
import math

from . import absyn

CONST_VALUES = {'PI': math.pi, 'E': math.e, 'INF': math.inf, 'NAN': math.nan}
SCOPE_NAMES = {'globally': 'GLOBAL', 'after': 'AFTER', 'until': 'UNTIL', 'after_until': 'AFTER_UNTIL'}
PATTERN_NAMES = {'some': 'EXISTENCE', 'no': 'ABSENCE', 'causes': 'RESPONSE', 'forbids': 'PREVENTION',
                 'requires': 'REQUIREMENT'}


def num_value(text):
    try:
        return int(text)
    except ValueError:
        return float(text)


def _cls(h):
    return type(h).__name__


def compare_expr(a, h, out, path='', alias=None, bound=frozenset()):
    """Append a description of every difference between abstract expr a and hpl node h."""
    t = a[0]

    def bad(msg):
        out.append(f'{path or "root"}: {msg}')

    if t == 'var' and alias is not None and a[1] == alias and a[1] not in bound:
        t, a = 'this', absyn.THIS
    if t == 'lit':
        if _cls(h) != 'HplLiteral':
            return bad(f'expected literal {a[2]}, got {_cls(h)}')
        if h.token != a[2]:
            bad(f'literal token {h.token!r} != {a[2]!r}')
        if a[1] == 'bool':
            if h.value is not (a[2] == 'True'):
                bad(f'boolean value {h.value!r}')
        elif a[1] == 'num':
            v = num_value(a[2])
            if type(h.value) is not type(v) or (h.value != v and not (v != v and h.value != h.value)):
                bad(f'number value {h.value!r} (type {type(h.value).__name__}) != {v!r}')
        else:
            if h.value not in (a[2], a[2][1:-1]):
                bad(f'string value {h.value!r} for token {a[2]!r}')
    elif t == 'const':
        if _cls(h) != 'HplLiteral':
            return bad(f'expected constant {a[1]}, got {_cls(h)}')
        v = CONST_VALUES[a[1]]
        if h.token != a[1]:
            bad(f'constant token {h.token!r} != {a[1]!r}')
        if not isinstance(h.value, float) or (h.value != v and not (v != v and h.value != h.value)):
            bad(f'constant value {h.value!r} != {v!r}')
    elif t == 'this':
        if _cls(h) != 'HplThisMessage':
            bad(f'expected this-message, got {_cls(h)}')
    elif t == 'var':
        if _cls(h) != 'HplVarReference':
            return bad(f'expected @{a[1]}, got {_cls(h)}')
        if h.token != '@' + a[1] or h.name != a[1]:
            bad(f'variable {h.token!r} != @{a[1]}')
    elif t == 'field':
        if _cls(h) != 'HplFieldAccess':
            return bad(f'expected field access .{a[2]}, got {_cls(h)}')
        if h.field != a[2]:
            bad(f'field name {h.field!r} != {a[2]!r}')
        compare_expr(a[1], h.message, out, path + '.message', alias, bound)
    elif t == 'index':
        if _cls(h) != 'HplArrayAccess':
            return bad(f'expected array access, got {_cls(h)}')
        compare_expr(a[1], h.array, out, path + '.array', alias, bound)
        compare_expr(a[2], h.index, out, path + '.index', alias, bound)
    elif t == 'set':
        if _cls(h) != 'HplSet':
            return bad(f'expected set, got {_cls(h)}')
        if not isinstance(h.values, tuple) or len(h.values) != len(a[1]):
            return bad(f'set has {len(h.values)} elements, expected {len(a[1])}')
        for i, (x, y) in enumerate(zip(a[1], h.values)):
            compare_expr(x, y, out, f'{path}.values[{i}]', alias, bound)
    elif t == 'range':
        if _cls(h) != 'HplRange':
            return bad(f'expected range, got {_cls(h)}')
        if h.exclude_min is not bool(a[3]):
            bad(f'exclude_min {h.exclude_min!r} != {a[3]!r}')
        if h.exclude_max is not bool(a[4]):
            bad(f'exclude_max {h.exclude_max!r} != {a[4]!r}')
        compare_expr(a[1], h.min_value, out, path + '.min_value', alias, bound)
        compare_expr(a[2], h.max_value, out, path + '.max_value', alias, bound)
    elif t == 'un':
        if _cls(h) != 'HplUnaryOperator':
            return bad(f'expected unary {a[1]}, got {_cls(h)}')
        if h.operator.token != a[1]:
            bad(f'unary operator {h.operator.token!r} != {a[1]!r}')
        compare_expr(a[2], h.operand, out, path + '.operand', alias, bound)
    elif t == 'bin':
        if _cls(h) != 'HplBinaryOperator':
            return bad(f'expected binary {a[1]}, got {_cls(h)}')
        if h.operator.token != a[1]:
            bad(f'binary operator {h.operator.token!r} != {a[1]!r}')
        compare_expr(a[2], h.operand1, out, path + '.operand1', alias, bound)
        compare_expr(a[3], h.operand2, out, path + '.operand2', alias, bound)
    elif t == 'quant':
        if _cls(h) != 'HplQuantifier':
            return bad(f'expected quantifier, got {_cls(h)}')
        if h.quantifier.token != a[1]:
            bad(f'quantifier {h.quantifier.token!r} != {a[1]!r}')
        if (a[1] == 'forall') is not h.is_universal or (a[1] == 'exists') is not bool(h.is_existential):
            bad('quantifier kind flags disagree')
        if h.variable != a[2]:
            bad(f'bound variable {h.variable!r} != {a[2]!r}')
        compare_expr(a[3], h.domain, out, path + '.domain', alias, bound)
        compare_expr(a[4], h.condition, out, path + '.condition', alias, bound | {a[2]})
    elif t == 'call':
        if _cls(h) != 'HplFunctionCall':
            return bad(f'expected call {a[1]}, got {_cls(h)}')
        if h.function.name != a[1]:
            bad(f'function {h.function.name!r} != {a[1]!r}')
        if not isinstance(h.arguments, tuple) or len(h.arguments) != len(a[2]):
            return bad(f'call has {len(h.arguments)} arguments, expected {len(a[2])}')
        for i, (x, y) in enumerate(zip(a[2], h.arguments)):
            compare_expr(x, y, out, f'{path}.arguments[{i}]', alias, bound)
    else:
        raise ValueError(a)


def compare_predicate(pred, h, out, path, alias=None):
    """pred: abstract condition or None; h: an HplPredicate."""
    if pred is None or (pred[0] == 'lit' and pred[1] == 'bool' and pred[2] == 'True'):
        if _cls(h) != 'HplVacuousTruth':
            out.append(f'{path}: expected the vacuous truth, got {_cls(h)}')
        return
    if pred[0] == 'lit' and pred[1] == 'bool':
        if _cls(h) != 'HplContradiction':
            out.append(f'{path}: expected the contradiction, got {_cls(h)}')
        return
    if _cls(h) != 'HplPredicateExpression':
        out.append(f'{path}: expected a predicate expression, got {_cls(h)}')
        return
    compare_expr(pred, h.expression, out, path + '.expression', alias)
    if h.condition is not h.expression:
        out.append(f'{path}: condition is not the stored expression')


def flatten_disjunction(h):
    if _cls(h) == 'HplEventDisjunction':
        return flatten_disjunction(h.event1) + flatten_disjunction(h.event2)
    return [h]


def compare_event(ev, h, out, path):
    if ev is None:
        if h is not None:
            out.append(f'{path}: expected no event, got {_cls(h)}')
        return
    if h is None:
        out.append(f'{path}: event missing')
        return
    if ev[0] == 'disj':
        if _cls(h) != 'HplEventDisjunction':
            out.append(f'{path}: expected a disjunction, got {_cls(h)}')
            return
        flat = flatten_disjunction(h)
        if len(flat) != len(ev[1]):
            out.append(f'{path}: disjunction of {len(flat)} events, expected {len(ev[1])}')
            return
        for i, (x, y) in enumerate(zip(ev[1], flat)):
            compare_event(x, y, out, f'{path}[{i}]')
        return
    if _cls(h) != 'HplSimpleEvent':
        out.append(f'{path}: expected a simple event, got {_cls(h)}')
        return
    _, topic, alias, pred = ev
    if h.name != topic:
        out.append(f'{path}: topic {h.name!r} != {topic!r}')
    if h.alias != alias:
        out.append(f'{path}: alias {h.alias!r} != {alias!r}')
    if not h.is_publish:
        out.append(f'{path}: not a publish event')
    compare_predicate(pred, h.predicate, out, path + '.predicate', alias)


def expected_max_time(tb):
    if tb is None:
        return math.inf
    v = float(tb[0])
    return v / 1000.0 if tb[1] == 'ms' else v


def admissible_max_times(tb):
    """the double a correct conversion may produce: the float quotient, or the correctly rounded exact quotient
    (they coincide for integers and short decimals); a result one ulp off both is a wrong conversion"""
    from fractions import Fraction
    out = {expected_max_time(tb)}
    try:
        q = Fraction(tb[0]) / (1000 if tb[1] == 'ms' else 1)
        out.add(float(q))
    except (ValueError, ZeroDivisionError, OverflowError):
        pass
    return out


EXPECTED_MIN_TIME = [None]  # lower bound given to API-built patterns (hplapi.MIN_TIME); text has no syntax for one


def compare_property(p, h, out, path='property', check_meta=True):
    if _cls(h) != 'HplProperty':
        out.append(f'{path}: expected a property, got {_cls(h)}')
        return
    _, meta, scope, pat = p
    hs, hp = h.scope, h.pattern
    if hs.scope_type.name != SCOPE_NAMES[scope[1]]:
        out.append(f'{path}.scope: kind {hs.scope_type.name} != {SCOPE_NAMES[scope[1]]}')
    compare_event(scope[2], hs.activator, out, path + '.scope.activator')
    compare_event(scope[3], hs.terminator, out, path + '.scope.terminator')
    if hp.pattern_type.name != PATTERN_NAMES[pat[1]]:
        out.append(f'{path}.pattern: kind {hp.pattern_type.name} != {PATTERN_NAMES[pat[1]]}')
    pos = absyn.prop_positions(p)
    compare_event(pos.get('trigger'), hp.trigger, out, path + '.pattern.trigger')
    compare_event(pos.get('behaviour'), hp.behaviour, out, path + '.pattern.behaviour')
    exp = expected_max_time(pat[4])
    exp_min = 0 if EXPECTED_MIN_TIME[0] is None else min(EXPECTED_MIN_TIME[0], exp)
    if hp.min_time != exp_min:
        out.append(f'{path}.pattern: min_time {hp.min_time!r} != {exp_min!r}')
    got = hp.max_time
    if not isinstance(got, float):
        out.append(f'{path}.pattern: max_time is {type(got).__name__}')
    elif exp == math.inf or got == math.inf:
        if exp != got:
            out.append(f'{path}.pattern: max_time {got!r} != {exp!r}')
    elif got not in admissible_max_times(pat[4]):
        out.append(f'{path}.pattern: max_time {got!r} != {exp!r}')
    if check_meta:
        compare_metadata(meta, h.metadata, out, path + '.metadata')


def compare_metadata(meta, hmeta, out, path):
    if not isinstance(hmeta, dict):
        out.append(f'{path}: not a dict')
        return
    exp = {}
    for k, v in meta:
        exp[k] = v
    if set(hmeta) != set(exp):
        out.append(f'{path}: keys {sorted(hmeta)} != {sorted(exp)}')
        return
    for k, v in exp.items():
        got = hmeta[k]
        ok = got == v or (v.startswith('"') and got == v[1:-1])
        if not ok:
            out.append(f'{path}[{k}]: {got!r} != {v!r}')


def compare_spec(props, h, out):
    if _cls(h) != 'HplSpecification':
        out.append(f'spec: expected a specification, got {_cls(h)}')
        return
    if not isinstance(h.properties, tuple) or len(h.properties) != len(props):
        out.append(f'spec: {len(h.properties)} properties, expected {len(props)}')
        return
    for i, (p, hp) in enumerate(zip(props, h.properties)):
        compare_property(p, hp, out, f'spec[{i}]')
