"""Orchestration: worker subprocesses, merge, verdict, evidence.

Exit status of a check: 0 = held on everything observed (and every starvation floor met),
1 = at least one violation not listed in known_findings.txt (a VIOLATION line is printed),
2 = inconclusive (a deciding monitor observed fewer events than its floor, or a watchdog fired).
"""
import collections
import hashlib
import importlib
import json
import os
import random
import shutil
import subprocess
import sys
import tempfile
import time
import traceback

from . import env, known as knownmod

SYNTACTIC = ('node:', 'op:', 'fn:', 'lit:', 'shape:', 'api:')
MAX_SAMPLES = 8
MAX_VIOLATIONS_PER_WORKER = 40
SHRINK_PER_KIND = 6


def h64(s):
    return int.from_bytes(hashlib.blake2b(s.encode('utf8', 'replace'), digest_size=8).digest(), 'big')


def load_prop(pid):
    return importlib.import_module(f'hplmon.props.{pid.lower()}')


class Ctx:
    """Per-worker recording context handed to a property module's run()."""

    def __init__(self, pid, tier, seed, shard, nshards, known):
        self.pid = pid
        self.tier = tier
        self.seed = seed
        self.shard = shard
        self.nshards = nshards
        self.known = [k for k in known if k.prop == pid]
        self.rng = random.Random(h64(f'{seed}/{pid}/{shard}/{tier}'))
        self.counters = collections.Counter()
        self.evaluations = 0
        self.sigs = set()
        self.skips = collections.Counter()
        self.samples = []
        self.violations = []
        self.kf_hits = collections.Counter()
        self.kf_examples = {}
        self.strata = {
            'kf_free': collections.Counter(),
            'full': collections.Counter(),
        }
        self.stratum = 'kf_free'
        self._shrunk_per_kind = collections.Counter()
        self.dropped_violations = 0
        self.t0 = time.time()
        self._stall = float(os.environ.get('HPLMON_STALL') or 0)
        self._armed = -1e9

    # -- budgets ------------------------------------------------------------------------
    def share(self, total):
        """This shard's share of a tier-wide count budget."""
        base, rem = divmod(total, self.nshards)
        return base + (1 if self.shard < rem else 0)

    def mine(self, index):
        """Deterministic partition of an enumeration among shards."""
        return index % self.nshards == self.shard

    # -- recording ----------------------------------------------------------------------
    def count(self, name, n=1):
        self.counters[name] += n

    def begin_case(self, features=()):
        """Assign the case to a stratum: 'full' iff the syntactic part of some known: line could
        match this input; otherwise 'kf_free', where no suppression is ever applied."""
        self._progress()
        fs = set(features)
        st = 'kf_free'
        for k in self.known:
            syn = [r for r in k.requires if r.startswith(SYNTACTIC)]
            forb = [r for r in k.forbids if r.startswith(SYNTACTIC)]
            if all(r in fs for r in syn) and not any(f in fs for f in forb):
                st = 'full'
                break
        self.stratum = st
        self.strata[st]['cases'] += 1
        return st

    def _progress(self):
        now = time.monotonic()
        if self._stall > 0 and now - self._armed > 5:
            # stall watchdog (C-level timer, needs no GIL): no case or evaluation for _stall seconds => stack dump
            # and exit; the check then reports INCONCLUSIVE with the stack instead of waiting for the tier's
            # wall-clock limit (hpl folds astronomically large integer powers without ever returning)
            import faulthandler
            faulthandler.dump_traceback_later(self._stall, exit=True)
            self._armed = now

    def evaluation(self, sig=None, nontrivial=False, n=1):
        self._progress()
        self.evaluations += n
        self.strata[self.stratum]['evaluations'] += n
        if nontrivial and sig is not None:
            self.sigs.add(h64(sig))

    def skip(self, reason, n=1):
        self.skips[reason] += n

    def sample(self, obj, force=False):
        if len(self.samples) < MAX_SAMPLES or force:
            self.samples.append(obj)

    def violation(self, kind, witness, features=(), shrink=None):
        """Record a violation.  `shrink` is an optional thunk returning (witness', features')
        for the minimised case; classification against known findings happens on the shrunk
        case for the first few violations of each kind, on the raw case afterwards (a raw case
        that does not match a known line is always shrunk before it is reported)."""
        self.count(f'violations_raw:{kind}')
        stratum = self.stratum
        feats = sorted(set(features))
        shrunk_w, shrunk_f = None, None

        def do_shrink():
            nonlocal shrunk_w, shrunk_f
            if shrink is None or shrunk_w is not None:
                return
            try:
                r = shrink()
            except Exception:  # a failing shrinker must not hide the violation
                self.count('shrinker_errors')
                r = None
            if r:
                shrunk_w, shrunk_f = r[0], sorted(set(r[1]))

        k = None
        if stratum == 'full':
            if self._shrunk_per_kind[kind] < SHRINK_PER_KIND:
                self._shrunk_per_kind[kind] += 1
                do_shrink()
            f_eff = shrunk_f if shrunk_f is not None else feats
            k = knownmod.classify(self.known, self.pid, kind, f_eff)
            if k is None and shrunk_f is None:
                do_shrink()
                f_eff = shrunk_f if shrunk_f is not None else feats
                k = knownmod.classify(self.known, self.pid, kind, f_eff)
        if k is not None:
            self.kf_hits[k.slug] += 1
            self.strata[stratum]['known_hits'] += 1
            if k.slug not in self.kf_examples:
                self.kf_examples[k.slug] = shrunk_w if shrunk_w is not None else witness
            return k.slug
        do_shrink()
        self.strata[stratum]['violations'] += 1
        if len(self.violations) >= MAX_VIOLATIONS_PER_WORKER:
            self.dropped_violations += 1
            return None
        self.violations.append(
            {
                'kind': kind,
                'stratum': stratum,
                'features': feats,
                'witness': witness,
                'shrunk': shrunk_w,
                'shrunk_features': shrunk_f,
                'shard': self.shard,
            }
        )
        return None

    def result(self):
        return {
            'shard': self.shard,
            'evaluations': self.evaluations,
            'sigs': sorted(self.sigs),
            'counters': dict(self.counters),
            'skips': dict(self.skips),
            'samples': self.samples[: MAX_SAMPLES + 4],
            'violations': self.violations,
            'dropped_violations': self.dropped_violations,
            'kf_hits': dict(self.kf_hits),
            'kf_examples': self.kf_examples,
            'strata': {k: dict(v) for k, v in self.strata.items()},
            'wall_s': round(time.time() - self.t0, 3),
            'hashseed': os.environ.get('PYTHONHASHSEED', ''),
        }


def jsonable(o):
    if isinstance(o, (str, int, bool)) or o is None:
        return o
    if isinstance(o, float):
        return o if o == o and o not in (float('inf'), float('-inf')) else repr(o)
    if isinstance(o, dict):
        return {str(k): jsonable(v) for k, v in o.items()}
    if isinstance(o, (list, tuple, set, frozenset)):
        return [jsonable(x) for x in o]
    return repr(o)


def worker_main(pid, tier, seed, shard, nshards, out):
    import faulthandler

    faulthandler.enable()
    wd = float(os.environ.get('HPLMON_WATCHDOG') or 0)
    if wd > 0:
        # shortly before the parent's wall-clock watchdog fires, leave the stack in the shard log
        faulthandler.dump_traceback_later(wd, exit=False)
    origin = env.setup_import()
    mod = load_prop(pid)
    kn, _ = knownmod.load()
    ctx = Ctx(pid, tier, seed, shard, nshards, kn)
    status = 'ok'
    err = None
    try:
        mod.run(ctx)
        env.assert_origin()
    except BaseException:
        status = 'crashed'
        err = traceback.format_exc()
    faulthandler.cancel_dump_traceback_later()
    res = ctx.result()
    res['status'] = status
    res['error'] = err
    res['origin'] = origin
    with open(out, 'w') as f:
        json.dump(jsonable(res), f)
    return 0 if status == 'ok' else 3


def n_workers(tier):
    n = os.environ.get('HPLMON_WORKERS')
    if n:
        return max(1, int(n))
    cpus = os.cpu_count() or 4
    return max(2, min(16, cpus))


def check_main(pid, tier, seed, check_path):
    t0 = time.time()
    mod = load_prop(pid)
    kn, _fixed = knownmod.load()
    nshards = getattr(mod, 'SHARDS', {}).get(tier) or n_workers(tier)
    scratch = tempfile.mkdtemp(prefix=f'hplmon-{pid}-')
    timeout = getattr(mod, 'TIMEOUT', {}).get(tier, 900 if tier == 'quick' else 5400)
    procs = []
    try:
        for i in range(nshards):
            out = os.path.join(scratch, f'w{i}.json')
            e = dict(os.environ)
            e['PYTHONHASHSEED'] = str((i + seed) % 4)
            e['PYTHONDONTWRITEBYTECODE'] = '1'
            e['HPLMON_SCRATCH'] = scratch
            e['HPLMON_WATCHDOG'] = str(max(5, timeout * 0.9))
            e.setdefault('HPLMON_STALL', str(min(900, timeout * 0.5)))
            cmd = [
                sys.executable, '-X', f'pycache_prefix={scratch}/pyc', check_path, pid,
                '--worker', '--tier', tier, '--seed', str(seed),
                '--shard', str(i), '--nshards', str(nshards), '--out', out,
            ]
            log = open(os.path.join(scratch, f'w{i}.log'), 'w')
            procs.append((i, out, subprocess.Popen(cmd, env=e, stdout=log, stderr=log, cwd=env.VERIF), log))
        results, problems = [], []
        deadline = t0 + timeout
        for i, out, p, log in procs:
            try:
                p.wait(timeout=max(1, deadline - time.time()))
            except subprocess.TimeoutExpired:
                p.kill()
                p.wait()
                try:
                    tail = open(os.path.join(scratch, f'w{i}.log')).read()[-1500:]
                except OSError:
                    tail = ''
                problems.append(f'shard {i}: wall-clock watchdog fired after {timeout}s; stack:\n{tail}')
            log.close()
            if os.path.exists(out):
                try:
                    results.append(json.load(open(out)))
                except Exception as ex:
                    problems.append(f'shard {i}: unreadable result ({ex})')
            else:
                tail = open(os.path.join(scratch, f'w{i}.log')).read()[-1500:]
                problems.append(f'shard {i}: no result (rc={p.returncode}) {tail}')
        return finish(pid, tier, seed, mod, results, problems, nshards, t0, kn)
    finally:
        for _, _, p, _ in procs:
            if p.poll() is None:
                p.kill()
        shutil.rmtree(scratch, ignore_errors=True)


def finish(pid, tier, seed, mod, results, problems, nshards, t0, kn):
    evaluations = sum(r['evaluations'] for r in results)
    sigs = set()
    counters = collections.Counter()
    skips = collections.Counter()
    kf_hits = collections.Counter()
    kf_examples = {}
    strata = {'kf_free': collections.Counter(), 'full': collections.Counter()}
    samples, violations = [], []
    dropped = 0
    hashseeds = set()
    for r in results:
        sigs.update(r['sigs'])
        counters.update(r['counters'])
        skips.update(r['skips'])
        kf_hits.update(r['kf_hits'])
        for k, v in r['kf_examples'].items():
            kf_examples.setdefault(k, v)
        for k, v in r['strata'].items():
            strata[k].update(v)
        violations.extend(r['violations'])
        dropped += r.get('dropped_violations', 0)
        hashseeds.add(r.get('hashseed', ''))
        if r.get('status') != 'ok':
            problems.append(f"shard {r['shard']}: worker crashed:\n{r.get('error')}")
    # interleave samples from shards so the evidence shows variety
    pools = [list(r['samples']) for r in results]
    while any(pools) and len(samples) < 12:
        for p in pools:
            if p and len(samples) < 12:
                samples.append(p.pop(0))

    floors = dict(getattr(mod, 'FLOORS', {}).get(tier, {}))
    fpath = os.path.join(env.VERIF, 'floors.json')
    if os.path.exists(fpath):
        # measured floors (tools/tune_floors.py): <= 40 % of the smallest yield seen on the unchanged tree
        floors.update(json.load(open(fpath)).get(pid, {}).get(tier, {}))
    floor_report = {}
    starved = []
    for name, minimum in floors.items():
        got = evaluations if name == 'evaluations' else (
            len(sigs) if name == 'distinct_nontrivial' else counters.get(name, 0))
        floor_report[name] = {'min': minimum, 'observed': got}
        if got < minimum:
            starved.append(f'{name}: observed {got} < floor {minimum}')

    rpdir = os.environ.get('HPLMON_REPLAY_DIR') or os.path.join(env.VERIF, 'replays')
    os.makedirs(rpdir, exist_ok=True)
    replay_paths = []
    for n, v in enumerate(violations):
        path = os.path.join(rpdir, f'{pid}-{tier}-seed{seed}-{n}.json')
        with open(path, 'w') as f:
            json.dump({'property': pid, 'tier': tier, 'seed': seed, 'nshards': nshards, **v}, f, indent=1)
        replay_paths.append(path)

    wall = round(time.time() - t0, 2)
    known_by_slug = {k.slug: k for k in kn if k.prop == pid}
    coverage = {
        'evaluations': evaluations,
        'distinct_nontrivial': len(sigs),
        'rule': getattr(mod, 'RULE', '') + getattr(mod, 'RULE_ADDED', ''),
        'samples': samples,
        'observed': dict(sorted(counters.items())),
        'skips': dict(skips),
        'strata': {k: dict(v) for k, v in strata.items()},
        'known_findings_hit': {
            k: {'count': n, 'what': known_by_slug[k].text if k in known_by_slug else '',
                'example': kf_examples.get(k)}
            for k, n in sorted(kf_hits.items())
        },
        'floors': floor_report,
        'hashseeds': sorted(hashseeds),
        'shards': nshards,
        'tree': env.tree_identity(),
        'problems': problems,
        'violation_samples': [
            {'kind': v['kind'], 'stratum': v['stratum'],
             'witness': v['shrunk'] if v['shrunk'] is not None else v['witness']}
            for v in violations[:10]
        ],
        'dropped_violations': dropped,
    }
    if getattr(mod, 'EXHAUSTIVE', {}).get(tier):
        coverage['exhaustive'] = True
    extra = getattr(mod, 'coverage_extra', None)
    if extra:
        try:
            coverage.update(extra(tier, counters))
        except Exception as ex:  # pragma: no cover
            problems.append(f'coverage_extra failed: {ex}')
    evidence = {
        'property_id': pid,
        'tier': tier,
        'seed': seed,
        'level': getattr(mod, 'LEVEL', 'exploration'),
        'coverage': jsonable(coverage),
        'assumptions': list(getattr(mod, 'ASSUMPTIONS', [])),
        'wall_s': wall,
        'violations': len(violations) + dropped,
    }
    # side runs against scratch trees (self-validation) redirect their evidence so that the files of the real
    # tree are not overwritten
    evdir = os.environ.get('HPLMON_EVIDENCE_DIR') or os.path.join(env.VERIF, 'evidence')
    os.makedirs(evdir, exist_ok=True)
    with open(os.path.join(evdir, f'{pid}.json'), 'w') as f:
        json.dump(evidence, f, indent=1, sort_keys=False)
        f.write('\n')

    print(f'[{pid}] tier={tier} seed={seed} shards={nshards} wall={wall}s '
          f'evaluations={evaluations} distinct_nontrivial={len(sigs)}')
    for name, fr in floor_report.items():
        print(f'[{pid}] floor {name}: observed {fr["observed"]} (min {fr["min"]})')
    if skips:
        print(f'[{pid}] skips: ' + ', '.join(f'{k}={v}' for k, v in sorted(skips.items())))
    print(f'[{pid}] strata: ' + json.dumps({k: dict(v) for k, v in strata.items()}))
    for slug, n in sorted(kf_hits.items()):
        what = known_by_slug[slug].text if slug in known_by_slug else ''
        print(f'KNOWN-FINDING: property={pid} id={slug} hits={n} {what}')
    rc = 0
    if violations:
        for v, path in zip(violations, replay_paths):
            w = v['shrunk'] if v['shrunk'] is not None else v['witness']
            print(f'[{pid}] violation kind={v["kind"]} stratum={v["stratum"]} witness={json.dumps(jsonable(w))[:600]}')
            print(f'VIOLATION property={pid} replay={path}')
        rc = 1
    elif problems or starved:
        for p in problems:
            print(f'[{pid}] problem: {p}')
        for s in starved:
            print(f'[{pid}] starved: {s}')
        reason = 'starvation' if starved and not problems else 'watchdog-or-crash'
        print(f'INCONCLUSIVE property={pid} reason={reason}')
        rc = 2
    else:
        print(f'[{pid}] HELD on everything observed')
    return rc


def replay_main(pid, path, check_path=None):
    """Re-execute the workload slice that produced the recorded violation: the same tier, seed, shard and hash seed
    against the current tree (every choice of a shard is a function of those), then look for the recorded witness.
    Exit 1 + VIOLATION line if it recurs, 0 if that shard no longer reports it, 2 if the shard could not be run."""
    mod = load_prop(pid)
    case = json.load(open(path))
    fn = getattr(mod, 'replay', None)
    if fn is not None:
        env.setup_import()
        if fn(case):
            print(f'VIOLATION property={pid} replay={path}')
            return 1
        print(f'[{pid}] replay: the recorded case no longer violates')
        return 0
    tier, seed, shard = case.get('tier', 'quick'), int(case.get('seed', 0)), int(case.get('shard', 0))
    nshards = int(case.get('nshards') or getattr(mod, 'SHARDS', {}).get(tier) or n_workers(tier))
    scratch = tempfile.mkdtemp(prefix=f'hplmon-replay-{pid}-')
    try:
        out = os.path.join(scratch, 'w.json')
        e = dict(os.environ)
        e['PYTHONHASHSEED'] = str((shard + seed) % 4)
        e['PYTHONDONTWRITEBYTECODE'] = '1'
        e['HPLMON_SCRATCH'] = scratch
        timeout = getattr(mod, 'TIMEOUT', {}).get(tier, 900 if tier == 'quick' else 5400)
        cmd = [sys.executable, '-X', f'pycache_prefix={scratch}/pyc', check_path or os.path.join(env.VERIF, 'check'), pid,
               '--worker', '--tier', tier, '--seed', str(seed), '--shard', str(shard), '--nshards', str(nshards),
               '--out', out]
        try:
            subprocess.run(cmd, env=e, cwd=env.VERIF, timeout=timeout, stdout=subprocess.DEVNULL, stderr=subprocess.DEVNULL)
        except subprocess.TimeoutExpired:
            print(f'INCONCLUSIVE property={pid} reason=replay-timeout')
            return 2
        if not os.path.exists(out):
            print(f'INCONCLUSIVE property={pid} reason=replay-shard-crashed')
            return 2
        res = json.load(open(out))
        want = json.dumps(jsonable(case.get('witness')), sort_keys=True)
        same = [v for v in res.get('violations', []) if v['kind'] == case.get('kind')
                and json.dumps(jsonable(v['witness']), sort_keys=True) == want]
        print(f'[{pid}] replay: shard {shard}/{nshards} of tier={tier} seed={seed} re-executed: '
              f'{res.get("evaluations")} evaluations, {len(res.get("violations", []))} violation(s), '
              f'{len(same)} identical to the recorded one')
        if same:
            w = same[0]['shrunk'] if same[0].get('shrunk') is not None else same[0]['witness']
            print(f'[{pid}] violation kind={same[0]["kind"]} witness={json.dumps(jsonable(w))[:600]}')
            print(f'VIOLATION property={pid} replay={path}')
            return 1
        print(f'[{pid}] replay: the recorded case no longer violates')
        return 0
    finally:
        shutil.rmtree(scratch, ignore_errors=True)
