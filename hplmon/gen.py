"""Workload generators over the abstract syntax of absyn.py.  Plain random.Random code,
reproducible from the seed, count-bounded.  Nothing is imported from hpl or its tests."""
import itertools

from . import absyn as A

# ------------------------------------------------------------------------------------------
# pools
# ------------------------------------------------------------------------------------------
PLAIN_FIELDS = ('x', 'y', 'z', 'w', 'v', 'data', 'value', 'pos', 'f1', 'linear', 'angular', 'b_1', 'Zed', '_u')
KW_PREFIX_NAMES = ('notable', 'order', 'index', 'inside', 'iffy', 'android', 'total', 'asset', 'nothing',
                   'someone', 'afterburner', 'untilx', 'forallx', 'existsy', 'Estimate', 'PIN', 'INFO', 'NANO',
                   'Truex', 'Falsey', 'within2', 'ms1', 's', 'ms', 'impliesx', 'tofu', 'causesx', 'Error',
                   'requires_it', 'globally_', 'input', 'origin', 'notify', 'E1', 'PIx', 'INFx', 'forbidsx')
PLAIN_TOPICS = ('a', 'b', 'c', 'd', 'e', 'g', 'h', 'k', 'topic', '/cmd_vel', '/ns/scan', '~private', 'odom1',
                'a/b/c', '/r2/d2', 'bumper')
KW_PREFIX_TOPICS = ('nothing', 'someone', 'afterburner', 'untilx', 'order', 'asset', 'notable', '/nothing',
                    'within2', 'causesx', 'globally_', 'to/from')
ALIASES = ('A', 'B', 'C', 'M', 'Msg', 'prev', 'm1', 'BA', 'aM')  # 'BA'/'A' and 'aM'/'M': one name is a suffix of another
KW_PREFIX_ALIASES = ('Estimate', 'orderly', 'assets', 'inside', 'notably', 'Total')
BOUND_VARS = ('i', 'j', 'k', 'n', 'e1', 'elem')
NUM_TEXTS = ('0', '1', '2', '3', '10', '0.5', '0.25', '1.5', '100', '7', '1e3', '2.5E-2', '.5', '1.',
             '1234567890123456789', '1e308', '1e-320', '0.0', '42', '1e+16', '2.5E+3')
SMALL_NUM_TEXTS = ('0', '1', '2', '3', '0.5', '10', '1.5')
STR_TEXTS = ('"a"', '"b"', '""', '"hello world"', '"1"', '"x y"', '"not"', '"\\"q\\""', '"p\tq"', '"5\xa0km"')
FUN1_NUM = ('abs', 'sqrt', 'ceil', 'floor', 'sin', 'cos', 'tan', 'asin', 'acos', 'atan', 'deg', 'rad')
FUN_CONV = ('bool', 'int', 'float', 'str')
FUN_AGG = ('len', 'sum', 'prod', 'max', 'min', 'gcd')
FUN_MSG = ('roll', 'pitch', 'yaw')
ALL_FUNS = FUN1_NUM + FUN_CONV + FUN_AGG + FUN_MSG + ('log', 'atan2')
TIME_TEXTS = ('1', '5', '10', '100', '0.5', '0.1', '250', '3.5', '1000', '0.001', '72.33', '0.07233',
              '1e9', '1e20', '60', '0.25', '2.5', '33', '7', '1e-3', '12.5', '999', '1e-9', '0.3', '.75',
              '0', '0.0', '0e0', '0.000', '1.', '1e-320', '4.9e-324', '9', '13', '18', '26', '1.1', '0.57')


def pick(rng, seq):
    return seq[rng.randrange(len(seq))]


# ------------------------------------------------------------------------------------------
# untyped (grammar-directed) generator
# ------------------------------------------------------------------------------------------
class Untyped:
    """Every derivable text, well-typed or not.  names: callable(kind) -> name."""

    def __init__(self, rng, maxdepth=4, kw_names=0.15, funs=True, consts=True, quants=True):
        self.rng = rng
        self.maxdepth = maxdepth
        self.kw_names = kw_names
        self.funs = funs
        self.consts = consts
        self.quants = quants

    def field_name(self):
        r = self.rng
        return pick(r, KW_PREFIX_NAMES) if r.random() < self.kw_names else pick(r, PLAIN_FIELDS)

    def var_name(self):
        r = self.rng
        if r.random() < self.kw_names:
            return pick(r, KW_PREFIX_ALIASES)
        return pick(r, ALIASES + BOUND_VARS)

    def number(self):
        r = self.rng
        return A.num(pick(r, NUM_TEXTS) if r.random() < 0.5 else pick(r, SMALL_NUM_TEXTS))

    def reference(self, d):
        r = self.rng
        base = A.var(self.var_name()) if r.random() < 0.3 else A.fld(self.field_name())
        for _ in range(r.choice((0, 0, 0, 1, 1, 2, 3))):
            if r.random() < 0.6:
                base = ('field', base, self.field_name())
            else:
                base = ('index', base, self.arith(min(d, 2) - 1))
        return base

    def atom(self, d):
        r = self.rng
        k = r.random()
        if k < 0.40:
            return self.reference(d)
        if k < 0.62:
            return self.number()
        if k < 0.68:
            return A.boolean(r.random() < 0.5)
        if k < 0.74:
            return ('lit', 'str', pick(r, STR_TEXTS))
        if k < 0.78 and self.consts:
            return ('const', pick(r, A.CONSTS))
        if d <= 0:
            return self.reference(0)
        if k < 0.86 and self.funs:
            return ('call', pick(r, ALL_FUNS), (self.arith(d - 1),))
        if k < 0.93:
            return ('set', tuple(self.arith(d - 1) for _ in range(r.choice((1, 1, 2, 2, 3, 4)))))
        return ('range', self.arith(d - 1), self.arith(d - 1), r.random() < 0.3, r.random() < 0.3)

    def domain_atom(self, d):
        r = self.rng
        k = r.random()
        if k < 0.6:
            return self.reference(d)
        if k < 0.8:
            return ('set', tuple(self.arith(d - 1) for _ in range(r.choice((1, 2, 3)))))
        if k < 0.95:
            return ('range', self.arith(d - 1), self.arith(d - 1), r.random() < 0.3, r.random() < 0.3)
        return self.atom(0)

    def arith(self, d):
        r = self.rng
        if d <= 0 or r.random() < 0.35:
            return self.atom(d)
        k = r.random()
        if k < 0.15:
            return A.neg(self.arith(d - 1))
        if k < 0.85:
            return ('bin', pick(r, A.ARITH_BIN), self.arith(d - 1), self.arith(d - 1))
        return self.cond(d - 1)  # parenthesised condition inside arithmetic (syntactically fine)

    def cond(self, d):
        r = self.rng
        if d <= 0:
            return self.atom(0)
        k = r.random()
        if k < 0.22:
            return ('bin', pick(r, A.BOOL_BIN), self.cond(d - 1), self.cond(d - 1))
        if k < 0.32:
            return A.not_(self.cond(d - 1))
        if k < 0.40 and self.quants:
            v = pick(r, BOUND_VARS)
            body = self.cond(d - 1)
            if r.random() < 0.8:
                body = self._mention(body, v)
            return ('quant', pick(r, ('forall', 'exists')), v, self.domain_atom(d - 1), body)
        if k < 0.75:
            return ('bin', pick(r, A.REL_BIN), self.arith(d - 1), self.arith(d - 1))
        return self.arith(d)

    def _mention(self, body, v):
        """make sure @v occurs in body by conjoining a trivial use"""
        if v in A.all_vars(body):
            return body
        use = ('bin', pick(self.rng, ('=', '!=', '<', '>')), A.var(v), self.number())
        return ('bin', pick(self.rng, ('and', 'or')), body, use) if self.rng.random() < 0.5 else use


# ------------------------------------------------------------------------------------------
# schemas (own model)   types: ('bool',) ('num',) ('str',) ('arr', elem, length) ('msg', fields, consts)
# ------------------------------------------------------------------------------------------
BOOL, NUM, STR = ('bool',), ('num',), ('str',)
PRIMS = (BOOL, NUM, STR)


def random_schema(rng, depth=2, names=None, kw_names=0.0):
    """A message type with at least one field of each primitive type and one array of each."""
    used = set()

    def fresh(prefix):
        pool = PLAIN_FIELDS + (KW_PREFIX_NAMES if kw_names and rng.random() < kw_names else ())
        for _ in range(20):
            n = pick(rng, pool)
            if n not in used and n not in ('s', 'ms'):
                used.add(n)
                return n
        n = f'{prefix}{len(used)}'
        used.add(n)
        return n

    fields = {}
    base = [BOOL, NUM, NUM, STR, ('arr', NUM, -1), ('arr', BOOL, -1), ('arr', STR, -1)]
    for t in base:
        fields[fresh('f')] = t
    extra = rng.randrange(0, 4)
    for _ in range(extra):
        k = rng.random()
        if k < 0.4:
            t = pick(rng, PRIMS)
        elif k < 0.7:
            t = ('arr', pick(rng, PRIMS), pick(rng, (-1, -1, 2, 3)))
        elif depth > 0:
            sub = random_schema(rng, depth - 1, kw_names=kw_names)
            t = sub if rng.random() < 0.6 else ('arr', sub, pick(rng, (-1, 2, 3)))
        else:
            t = NUM
        fields[fresh('g')] = t
    if depth > 0 and not any(t[0] == 'msg' for t in fields.values()):
        fields[fresh('m')] = random_schema(rng, depth - 1, kw_names=kw_names)
    consts = {}
    if rng.random() < 0.4:
        consts[fresh('K').upper() + '_C'] = (NUM, rng.choice((0, 1, 2, 5)))
    return ('msg', fields, consts)


def schema_paths(msg, maxdepth=3):
    """All reference paths from a message root: list of (steps, type); a step is ('f', name) or
    ('i', length).  Constants are listed as fields of their type."""
    out = []

    def rec(t, steps, d):
        if t[0] == 'msg':
            if d >= maxdepth:
                return
            for name, ft in t[1].items():
                s2 = steps + (('f', name),)
                out.append((s2, ft))
                rec(ft, s2, d + 1)
            for name, (ct, _v) in t[2].items():
                out.append((steps + (('f', name),), ct))
        elif t[0] == 'arr':
            if d >= maxdepth + 1:
                return
            s2 = steps + (('i', t[2]),)
            out.append((s2, t[1]))
            rec(t[1], s2, d + 1)

    rec(msg, (), 0)
    return out


def schema_shape(t):
    if t[0] == 'msg':
        return '{' + ','.join(sorted(schema_shape(x) for x in t[1].values())) + ('|c' if t[2] else '') + '}'
    if t[0] == 'arr':
        return '[' + schema_shape(t[1]) + (']' if t[2] < 0 else f']{t[2]}')
    return t[0][0]


# ------------------------------------------------------------------------------------------
# typed generator
# ------------------------------------------------------------------------------------------
class Typed:
    """Type-directed generator against a schema context.

    this    : message type of the current message, or None
    aliases : {alias: message type} visible earlier events
    Produces abstract expressions that are well-typed by the tables of DESIGN.md Appendix A."""

    def __init__(self, rng, this=None, aliases=None, maxdepth=4, avoid=(), bias='plain',
                 small_literals=True, allow_consts=True, reuse=0.12, sibling_reuse=0.0):
        self.rng = rng
        self.this = this
        self.aliases = dict(aliases or {})
        self.maxdepth = maxdepth
        self.avoid = set(avoid)
        self.bias = bias
        self.small = small_literals
        self.allow_consts = allow_consts
        self.reuse = reuse
        self.bound = {}  # var -> prim type, current nesting path
        self.names_used = set()
        self.sibling_reuse = sibling_reuse
        self.used_vars = set()
        self.pool = {BOOL: [], NUM: [], STR: []}
        self.roots = []
        if this is not None:
            self.roots.append((A.THIS, this))
        for a, t in self.aliases.items():
            self.roots.append((A.var(a), t))
        self._paths = {id(t): schema_paths(t) for _, t in self.roots}

    # -- references -----------------------------------------------------------------------
    def _path_expr(self, root, steps, d):
        e = root
        for s in steps:
            if s[0] == 'f':
                e = ('field', e, s[1])
            else:
                e = ('index', e, self.index_expr(s[1], d))
        return e

    def index_expr(self, length, d):
        r = self.rng
        hi = length if length and length > 0 else 3
        if d <= 0 or r.random() < 0.75:
            return A.num(str(r.randrange(0, hi)))
        k = r.random()
        if k < 0.5:
            ref = self.ref(NUM, 0)
            if ref is not None:
                return ref
        if k < 0.8:
            return ('bin', '+', A.num(str(r.randrange(0, max(1, hi - 1)))), A.num(pick(r, ('0', '1'))))
        e = self.num(min(d - 1, 1))
        if e[0] in ('lit', 'const') or (e[0] == 'un' and e[2][0] in ('lit', 'const')):
            # a literal index must stay within a fixed length (it is checked against the schema)
            return A.num(str(r.randrange(0, hi)))
        return e

    def ref(self, t, d, allow_bound=True):
        """A reference of model type t, or None."""
        r = self.rng
        cands = []
        if allow_bound and t in PRIMS:
            for v, vt in self.bound.items():
                if vt == t:
                    cands.append(('bound', v))
        for root, rt in self.roots:
            for steps, pt in self._paths[id(rt)]:
                if pt == t:
                    cands.append(('path', root, steps))
        if not cands:
            return None
        # prefer bound variables a bit when available (quantifier bodies must use them)
        c = pick(r, cands)
        if c[0] == 'bound':
            self.used_vars.add(c[1])
            return A.var(c[1])
        return self._path_expr(c[1], c[2], d)

    def ref_where(self, pred, d):
        r = self.rng
        cands = []
        for root, rt in self.roots:
            for steps, pt in self._paths[id(rt)]:
                if pred(pt):
                    cands.append((root, steps, pt))
        if not cands:
            return None, None
        root, steps, pt = pick(r, cands)
        return self._path_expr(root, steps, d), pt

    # -- literals -------------------------------------------------------------------------
    def num_lit(self):
        r = self.rng
        if self.bias == 'simplify' and r.random() < 0.55:
            return A.num(pick(r, ('0', '1', '1', '0', '2')))
        return A.num(pick(r, SMALL_NUM_TEXTS if self.small else NUM_TEXTS))

    def str_lit(self):
        return ('lit', 'str', pick(self.rng, STR_TEXTS[:6]))

    def _ok(self, feat):
        return feat not in self.avoid

    def _remember(self, t, e):
        if A.size(e) <= 9 and len(self.pool[t]) < 12 and not (A.all_vars(e) & set(self.bound)):
            self.pool[t].append(e)
        return e

    def _reused(self, t):
        p = self.pool[t]
        if p and self.rng.random() < self.reuse:
            e = pick(self.rng, p)
            if self.bound and any(x[0] == 'quant' and x[2] in self.bound for x in A.walk(e)):
                # a remembered closed quantifier must not land under (or in the domain of) a binder of the same
                # name: HPL forbids redefinition along a nesting path
                return None
            return e
        return None

    # -- typed productions ----------------------------------------------------------------
    def prim(self, t, d):
        return {BOOL: self.bool, NUM: self.num, STR: self.str_}[t](d)

    def any_prim(self, d):
        t = pick(self.rng, PRIMS)
        return t, self.prim(t, d)

    def num(self, d):
        r = self.rng
        e = self._reused(NUM)
        if e is not None:
            return e
        if d <= 0:
            k = r.random()
            if k < 0.55:
                e = self.ref(NUM, 0)
                if e is not None:
                    return e
            if k > 0.93 and self.allow_consts and self._ok('node:const'):
                return ('const', pick(r, ('PI', 'E')))
            return self.num_lit()
        k = r.random()
        if k < 0.18:
            return self.num(0)
        if k < 0.26 and self._ok('op:u-'):
            return self._remember(NUM, A.neg(self.num(d - 1)))
        if k < 0.66:
            ops = [o for o in A.ARITH_BIN if self._ok('op:' + o)]
            if not ops:
                return self.num(0)
            op = pick(r, ops)
            if self.bias == 'simplify' and r.random() < 0.2:
                a = self.num(d - 1)
                b = a if r.random() < 0.5 else (A.neg(a) if self._ok('op:u-') else a)
                return ('bin', op, a, b)
            return self._remember(NUM, ('bin', op, self.num(d - 1), self.num(d - 1)))
        if not self._ok('node:call'):
            return ('bin', '+', self.num(d - 1), self.num(d - 1))
        if k < 0.78:
            return ('call', pick(r, FUN1_NUM), (self.num(d - 1),))
        if k < 0.84:
            t, a = self.any_prim(d - 1)
            return ('call', pick(r, ('int', 'float')), (a,))
        if k < 0.96:
            f = pick(r, FUN_AGG)
            if f == 'len' and r.random() < 0.5:
                return ('call', 'len', (self.compound(pick(r, PRIMS), d - 1),))  # len does not care about element kinds
            return ('call', f, (self.compound(NUM, d - 1),))
        m, _ = self.msg_ref(d - 1)
        if m is not None and m != A.THIS:
            return ('call', pick(r, FUN_MSG), (m,))
        return ('call', 'abs', (self.num(d - 1),))

    def str_(self, d):
        r = self.rng
        k = r.random()
        if k < 0.5 or d <= 0:
            e = self.ref(STR, d)
            if e is not None and r.random() < 0.8:
                return e
            return self.str_lit()
        if k < 0.8 or not self._ok('node:call'):
            return self.str_lit()
        t, a = self.any_prim(d - 1)
        return ('call', 'str', (a,))

    def msg_ref(self, d):
        r = self.rng
        cands = [(root, None) for root, _ in self.roots if root != A.THIS]
        e, t = self.ref_where(lambda pt: pt[0] == 'msg', d)
        if e is not None and (not cands or r.random() < 0.6):
            return e, t
        if cands:
            return pick(r, cands)[0], None
        return None, None

    def compound(self, elem, d):
        """A compound (array reference, set or range) whose elements have primitive type elem."""
        r = self.rng
        k = r.random()
        if k < 0.45:
            e, _ = self.ref_where(lambda pt: pt[0] == 'arr' and pt[1] == elem, d)
            if e is not None:
                return e
        if elem == NUM and k < 0.72 and self._ok('node:range'):
            if r.random() < 0.7:
                lo = r.randrange(0, 3)
                hi = lo + r.randrange(0, 4)
                a, b = A.num(str(lo)), A.num(str(hi))
            else:
                a, b = self.num(max(0, d - 1)), self.num(max(0, d - 1))
            return ('range', a, b, r.random() < 0.25, r.random() < 0.25)
        if not self._ok('node:set'):
            e, _ = self.ref_where(lambda pt: pt[0] == 'arr' and pt[1] == elem, d)
            if e is not None:
                return e
        n = r.choice((1, 2, 2, 3, 3, 4))
        if self.bias == 'simplify' and r.random() < 0.35:
            n = r.choice((4, 5, 6))
        elems = [self.prim(elem, max(0, d - 1)) for _ in range(n)]
        if self.bias == 'simplify' and n >= 2 and r.random() < 0.3:
            elems[-1] = elems[0]
        if self.bias == 'simplify' and n >= 4 and elem == NUM:
            # aggregates over sets are folded when they hold several literals next to references
            for j, i in enumerate(r.sample(range(n), 2)):
                elems[i] = A.num(pick(r, ('1', '2', '3') if j else ('5', '7', '0.5', '10')))  # two different literals
            r.shuffle(elems)
        return ('set', tuple(elems))

    def fresh_var(self):
        """A bound-variable name that is new along the nesting path (domains included); sibling
        quantifiers re-use a name only with probability sibling_reuse."""
        reuse = self.rng.random() < self.sibling_reuse
        for v in BOUND_VARS:
            if v in self.bound or v in self.aliases:
                continue
            if v in self.names_used and not reuse:
                continue
            self.names_used.add(v)
            return v
        v = f'q{len(self.names_used)}'
        self.names_used.add(v)
        return v

    def quantifier(self, d):
        r = self.rng
        elem = pick(r, PRIMS if r.random() < 0.4 else (NUM,))
        v = self.fresh_var()
        self.bound[v] = None  # reserved while the domain is generated: neither usable nor re-bindable there
        try:
            dom = self.compound(elem, d - 1)
        finally:
            del self.bound[v]
        if A.level(dom) < 10:
            return None
        self.bound[v] = elem
        saved_used = self.used_vars
        self.used_vars = set()
        try:
            body = None
            for _ in range(6):
                self.used_vars = set()
                body = self.bool(d - 1)
                if v in self.used_vars and v in A.free_vars(body):
                    break
            else:
                use = self.atom_over(A.var(v), elem)
                body = ('bin', pick(r, ('and', 'or', 'implies')), body, use) if r.random() < 0.6 else use
        finally:
            del self.bound[v]
            self.used_vars = saved_used
        return ('quant', pick(r, ('forall', 'exists')), v, dom, body)

    def atom_over(self, e, t):
        """a boolean atom that uses expression e of primitive type t"""
        r = self.rng
        if t == BOOL:
            return e if r.random() < 0.6 else A.not_(e)
        if t == NUM:
            return ('bin', pick(r, ('<', '<=', '>', '>=', '=', '!=')), e, self.num(0))
        return ('bin', pick(r, ('=', '!=')), e, self.str_lit())

    def bool(self, d):
        r = self.rng
        e = self._reused(BOOL)
        if e is not None:
            return e
        if d <= 0:
            k = r.random()
            if k < 0.45:
                e = self.ref(BOOL, 0)
                if e is not None:
                    return e
            if k < 0.55 and self.bias == 'simplify':
                return A.boolean(r.random() < 0.5)
            if k < 0.85:
                return ('bin', pick(r, ('<', '<=', '>', '>=', '=', '!=')), self.num(0), self.num(0))
            return ('bin', pick(r, ('=', '!=')), self.str_(0), self.str_(0))
        k = r.random()
        if k < 0.10:
            return self.bool(0)
        if k < 0.20:
            return self._remember(BOOL, A.not_(self.bool(d - 1)))
        if k < 0.48:
            op = pick(r, A.BOOL_BIN)
            a = self.bool(d - 1)
            if self.bias == 'simplify' and r.random() < 0.25:
                b = a if r.random() < 0.5 else A.not_(a)
                if r.random() < 0.5:
                    a, b = b, a
                return ('bin', op, a, b)
            return self._remember(BOOL, ('bin', op, a, self.bool(d - 1)))
        if k < 0.66:
            op = pick(r, ('<', '<=', '>', '>='))
            return self._remember(BOOL, ('bin', op, self.num(d - 1), self.num(d - 1)))
        if k < 0.80:
            t = pick(r, (NUM, NUM, STR, BOOL))
            a = self.prim(t, d - 1)
            if self.bias == 'simplify' and r.random() < 0.2:
                b = a
            else:
                b = self.prim(t, d - 1)
            return self._remember(BOOL, ('bin', pick(r, ('=', '!=')), a, b))
        if k < 0.88 and self._ok('op:in'):
            t = pick(r, (NUM, NUM, STR, BOOL))
            return ('bin', 'in', self.prim(t, d - 1), self.compound(t, d - 1))
        if k < 0.97 and self._ok('node:quant'):
            q = self.quantifier(d)
            if q is not None:
                return q
        if self._ok('node:call'):
            t, a = self.any_prim(d - 1)
            return ('call', 'bool', (a,))
        return self.bool(d - 1)

    def predicate(self, d=None, need_this=True):
        """A boolean condition for an event predicate; references the current message."""
        d = self.maxdepth if d is None else d
        for _ in range(10):
            e = self.bool(self.rng.randrange(1, d + 1))
            if e[0] == 'lit':
                continue
            if need_this and not A.has_this(e):
                continue
            return e
        # fallback: a direct atom on a field of the current message
        ref = self.ref(NUM, 0, allow_bound=False)
        return ('bin', '>', ref if ref is not None else A.fld('x'), A.num('0'))


# ------------------------------------------------------------------------------------------
# events / properties
# ------------------------------------------------------------------------------------------
SCOPES = ('globally', 'after', 'until', 'after_until')
PATTERNS = ('some', 'no', 'causes', 'forbids', 'requires')


def binding_order(scope_kind, pat_kind):
    """Positions in HPL binding order with the positions each one may reference (A.4)."""
    order = []
    act = scope_kind in ('after', 'after_until')
    if act:
        order.append(('activator', ()))
    seen = ('activator',) if act else ()
    if pat_kind in ('some', 'no'):
        order.append(('behaviour', seen))
    elif pat_kind == 'requires':
        order.append(('behaviour', seen))
        order.append(('trigger', seen + ('behaviour',)))
    else:
        order.append(('trigger', seen))
        order.append(('behaviour', seen + ('trigger',)))
    if scope_kind in ('until', 'after_until'):
        order.append(('terminator', seen))
    return order


def assemble(scope_kind, pat_kind, events, tb=None, meta=()):
    """events: dict position -> event"""
    act = events.get('activator')
    term = events.get('terminator')
    scope = ('scope', scope_kind, act, term)
    if pat_kind in ('some', 'no'):
        pat = ('pat', pat_kind, events['behaviour'], None, tb)
    elif pat_kind == 'requires':
        pat = ('pat', pat_kind, events['behaviour'], events['trigger'], tb)
    else:
        pat = ('pat', pat_kind, events['trigger'], events['behaviour'], tb)
    return ('prop', tuple(meta), scope, pat)


class PropGen:
    """Scoping-valid, type-correct properties over random schemas (one schema per topic)."""

    def __init__(self, rng, maxdepth=3, kw_names=0.0, max_width=3, pred_prob=0.7, alias_prob=0.6,
                 avoid=(), bias='plain', topics=None, expose_disj_aliases=0.5, const_preds=0.0):
        self.expose_disj_aliases = expose_disj_aliases
        self.const_preds = const_preds  # probability that an event carries a constant predicate ({False}, {True}, ...)
        self.rng = rng
        self.maxdepth = maxdepth
        self.kw_names = kw_names
        self.max_width = max_width
        self.pred_prob = pred_prob
        self.alias_prob = alias_prob
        self.avoid = avoid
        self.bias = bias
        self.topic_pool = topics

    def topics(self):
        r = self.rng
        pool = list(self.topic_pool or PLAIN_TOPICS)
        if self.kw_names and r.random() < self.kw_names * 2:
            pool += list(KW_PREFIX_TOPICS)
        r.shuffle(pool)
        return pool

    def timebound(self):
        r = self.rng
        if r.random() < 0.45:
            return None
        return (pick(r, TIME_TEXTS), pick(r, ('s', 'ms')))

    def metadata(self, n):
        r = self.rng
        keys = [k for k in ('id', 'title', 'description') if r.random() < 0.5]
        r.shuffle(keys)
        out = []
        for k in keys:
            if k == 'id':
                out.append((k, pick(r, ('p1', 'prop_%d' % n, 'id', 'title', 'no', 'safety', 'Estimate'))))
            else:
                out.append((k, pick(r, ('"t"', '"a title"', '"globally: no a"', '"# id: x"', '"é世"', '""', '"a\tb"',
                                            '"x\xa0y  z"', '"say \\"hi\\""', '"C:\\\\logs\\\\"', '"a\\\\"'))))
        return tuple(out)

    def make(self, scope_kind=None, pat_kind=None, widths=None, n=0, with_meta=True):
        r = self.rng
        scope_kind = scope_kind or pick(r, SCOPES)
        pat_kind = pat_kind or pick(r, PATTERNS)
        order = binding_order(scope_kind, pat_kind)
        topics = self.topics()
        schemas = {}
        events = {}
        bound_aliases = {}  # position -> {alias: schema}
        alias_pool = list(ALIASES + (KW_PREFIX_ALIASES if self.kw_names and r.random() < self.kw_names else ()))
        r.shuffle(alias_pool)
        used_aliases = set()
        for pos, sees in order:
            w = (widths or {}).get(pos)
            if w is None:
                w = 1 if (r.random() < 0.6 or self.max_width < 2) else r.randrange(2, self.max_width + 1)
            visible = {}
            for p in sees:
                visible.update(bound_aliases.get(p, {}))
            alts = []
            mine = {}
            for _ in range(w):
                topic = topics.pop() if topics else f'tp{len(schemas)}'
                sch = random_schema(r, depth=1, kw_names=self.kw_names)
                schemas[topic] = sch
                alias = None
                if r.random() < self.alias_prob and alias_pool:
                    alias = alias_pool.pop()
                    used_aliases.add(alias)
                pred = None
                if r.random() < self.pred_prob:
                    tg = Typed(r, this=sch, aliases=visible, maxdepth=self.maxdepth, avoid=self.avoid,
                               bias=self.bias)
                    pred = tg.predicate()
                    if alias is not None and r.random() < 0.3:
                        # write some own-field references through the alias: t as A {@A.f ...}
                        pred = _via_alias(pred, alias, r)
                if self.const_preds and r.random() < self.const_preds:
                    pred = pick(r, (A.boolean(False), A.boolean(False), A.boolean(True), A.not_(A.boolean(True)),
                                    A.not_(A.boolean(False))))
                alts.append(('ev', topic, alias, pred))
                if alias is not None:
                    mine[alias] = sch
            # aliases of a disjunction are visible to later events only sometimes: a later reference to
            # an alias that not every alternative binds has no per-alternative decomposition
            bound_aliases[pos] = mine if (w == 1 or r.random() < self.expose_disj_aliases) else {}
            events[pos] = alts[0] if w == 1 else ('disj', tuple(alts))
        meta = self.metadata(n) if with_meta else ()
        p = assemble(scope_kind, pat_kind, events, self.timebound(), meta)
        return p, schemas, bound_aliases


def _via_alias(pred, alias, rng):
    """Rewrite a random subset of this-message roots to @alias (same meaning by C13)."""
    def f(e):
        if e[0] == 'field' and e[1] == A.THIS and rng.random() < 0.5:
            return ('field', A.var(alias), e[2])
        return e
    return A.subst(pred, f)


# ------------------------------------------------------------------------------------------
# token mutator
# ------------------------------------------------------------------------------------------
TOKEN_ALPHABET = (
    'not implies iff or and forall exists in to as within no some requires causes forbids after until globally '
    'True False PI INF NAN E ( ) { } [ ] ![ ]! , : . # = != < <= > >= + - * / ** @A @i x y abs len 1 0.5 "s" '
    'a /b s ms id title'
).split()


def mutate_tokens(rng, tokens, n=1):
    t = list(tokens)
    for _ in range(n):
        if not t:
            t.append(pick(rng, TOKEN_ALPHABET))
            continue
        k = rng.random()
        i = rng.randrange(len(t))
        if k < 0.25:
            t.insert(i, pick(rng, TOKEN_ALPHABET))
        elif k < 0.5:
            del t[i]
        elif k < 0.8:
            t[i] = pick(rng, TOKEN_ALPHABET)
        elif k < 0.9:
            t.insert(i, t[i])
        else:
            j = rng.randrange(len(t))
            t[i], t[j] = t[j], t[i]
    return t


# ------------------------------------------------------------------------------------------
# valuations
# ------------------------------------------------------------------------------------------
NUM_VALUES = (0, 1, -1, 2, 0.5, 3)
STR_VALUES = ('', 'a', 'b', '1')


def random_value(rng, t, corner=None):
    k = t[0]
    if k == 'bool':
        return rng.random() < 0.5 if corner is None else bool(corner)
    if k == 'num':
        return pick(rng, NUM_VALUES) if corner is None else corner
    if k == 'str':
        return pick(rng, STR_VALUES) if corner is None else ('a' if corner else '')
    if k == 'arr':
        n = t[2] if t[2] >= 0 else rng.choice((0, 1, 2, 2, 3, 3))
        if corner == 0 and t[2] < 0:
            n = 0
        return [random_value(rng, t[1], corner) for _ in range(n)]
    if k == 'msg':
        d = {name: random_value(rng, ft, corner) for name, ft in t[1].items()}
        for name, (ct, v) in t[2].items():
            d[name] = v
        return d
    raise ValueError(t)


def valuations(rng, this, aliases, n):
    """n environments {'this': value, 'aliases': {name: value}}: corners first, then random."""
    envs = []
    for corner in (0, 1, None, None):
        if len(envs) >= n:
            break
        envs.append({
            'this': random_value(rng, this, corner) if this is not None else None,
            'aliases': {a: random_value(rng, t, corner) for a, t in aliases.items()},
        })
    while len(envs) < n:
        envs.append({
            'this': random_value(rng, this) if this is not None else None,
            'aliases': {a: random_value(rng, t) for a, t in aliases.items()},
        })
    return envs


def selftest():
    import random
    from .model import grammar

    rng = random.Random(5)
    u = Untyped(rng)
    for _ in range(300):
        e = u.cond(3)
        toks = A.expr_tokens(e)
        assert grammar.verdict(toks, 'expression') in ('accept', 'ambiguous'), toks
    pg = PropGen(rng)
    for i in range(200):
        p, schemas, _ = pg.make(n=i)
        toks = A.prop_tokens(p)
        assert grammar.verdict(toks, 'property') in ('accept', 'ambiguous'), A.layout(toks)
    sch = random_schema(rng)
    tg = Typed(rng, this=sch, aliases={'A': random_schema(rng)})
    for _ in range(300):
        e = tg.predicate()
        assert grammar.verdict(A.expr_tokens(e), 'expression') == 'accept'
        assert not (A.free_vars(e) - {'A'}), e
