"""C16 - ASTs are immutable values: no API call changes an existing tree."""
import copy

from .. import absyn as A
from .. import gen, hplapi, monitors, semantic as S, shrink

ID = 'C16'
LEVEL = 'exploration'
TECHNIQUE = ('runtime monitoring: snapshot differ (identity-aware deep encoding, hash, == against a deep copy) taken '
             'around every API call of random call sequences on handed-out ASTs, plus a sys.monitoring write barrier on '
             'object.__setattr__ that names the writing code location; but() contract checked by postconditions')
RULE = ('For each accepted AST (expressions, predicates, properties with metadata): call sequences of length 1-3 drawn '
        'from the catalogue (queries, printers, hash/==, cast to each base type, but() with every field - same value or '
        'a value taken from another handed-out AST -, replacements, negate/join, simplify, split_and, '
        'refactor_reference, get_conjuncts/disjuncts, canonical_form, type_check_references with a valid and an '
        'invalid schema, sanity_check) applied to the AST, to a random sub-tree, or to the previous result; after every '
        'call all ASTs handed out so far are re-snapshotted. evaluations = API calls bracketed by snapshots; '
        'non-trivial = the call returned a new object or raised; distinct = (API sequence, input shape).')
RULE_ADDED = ' Since the seeding rounds: but(data_type=...), postconditions on cast copies, sequence fields (shorter/longer/reversed tuples), annotated nodes, aggregates over tiny reference sets, half-open infinite ranges, same-alias-twice scenario, human-written corpus, quantifier copies over exchanged domains (but(domain=...), replacements reaching only the domain, nested quantifiers).'
ASSUMPTIONS = ['direct constructor calls on caller-owned children (Not(a), And(a, b)) are outside the statement and not '
               'judged; the by-design in-place narrowing of nodes created inside the same call is not a violation']
FLOORS = {
    'quick': {'evaluations': 25000, 'distinct_nontrivial': 4000, 'snapshots_compared': 50000, 'but_calls': 2500,
              'rewrite_calls': 5000, 'cast_calls': 1500, 'W_writes_total': 20000},
    'thorough': {'evaluations': 500000, 'distinct_nontrivial': 50000, 'snapshots_compared': 1000000,
                 'but_calls': 50000, 'rewrite_calls': 100000, 'cast_calls': 30000, 'W_writes_total': 400000},
}
BUDGET = {'quick': {'asts': 5000, 'seqs': 5}, 'thorough': {'asts': 160000, 'seqs': 6}}
TIMEOUT = {'quick': 900, 'thorough': 7200}

REWRITES = ('simplify', 'split_and', 'refactor_reference', 'replace_this_with_var', 'replace_var_with_this',
            'get_conjuncts', 'get_disjuncts')


class Published:
    def __init__(self):
        self.items = []

    def add(self, root, label):
        if not hasattr(type(root), '__attrs_attrs__'):
            return
        for r, *_ in self.items:
            if r is root:
                return
        try:
            h = hash(root)
        except Exception:
            h = None
        self.items.append((root, monitors.snapshot(root, with_ids=True), h, copy.deepcopy(root), label))

    def check(self):
        """list of (label, what) for every published AST that changed"""
        out = []
        for root, snap, h, cp, label in self.items:
            if monitors.snapshot(root, with_ids=True) != snap:
                out.append((label, 'structure-or-stored-types', root, snap))
                continue
            try:
                if h is not None and hash(root) != h:
                    out.append((label, 'hash', root, snap))
                    continue
            except Exception:
                out.append((label, 'hash-raises', root, snap))
                continue
            if not (root == cp):
                out.append((label, 'equality-with-deep-copy', root, snap))
        return out


def first_difference(a, b, path='$'):
    if a == b:
        return None
    if isinstance(a, tuple) and isinstance(b, tuple) and len(a) == len(b):
        for i, (x, y) in enumerate(zip(a, b)):
            d = first_difference(x, y, f'{path}/{x[0] if isinstance(x, tuple) and x and isinstance(x[0], str) else i}')
            if d:
                return d
    return f'{path}: {str(a)[:80]} -> {str(b)[:80]}'


def subtrees(h):
    return [x for x in monitors.walk_attrs(h)]


def catalogue(rng, target, others, schemas):
    """list of (name, thunk) applicable to target"""
    from hpl import rewrite as RW
    from hpl.types import DataType

    ops = []
    t = target
    is_expr = bool(getattr(t, 'is_expression', False))
    is_pred = bool(getattr(t, 'is_predicate', False))
    is_event = bool(getattr(t, 'is_event', False))
    is_prop = bool(getattr(t, 'is_property', False))
    ops += [('str', lambda: str(t)), ('repr', lambda: repr(t)), ('hash', lambda: hash(t)),
            ('eq-self', lambda: t == t), ('children', lambda: t.children()),
            ('iterate', lambda: list(t.iterate()))]
    if others:
        o = gen.pick(rng, others)
        ops.append(('eq-other', lambda: (t == o, o == t)))
    if is_expr or is_pred or is_event:
        ops += [('external_references', lambda: t.external_references()),
                ('contains_reference', lambda: t.contains_reference('A')),
                ('contains_self_reference', lambda: t.contains_self_reference())]
    if is_expr:
        ops += [('contains_definition', lambda: t.contains_definition('i')),
                ('is_fully_typed', lambda: t.is_fully_typed())]
        for name in ('BOOL', 'NUMBER', 'STRING', 'ARRAY', 'RANGE', 'SET', 'MESSAGE', 'PRIMITIVE', 'ANY'):
            ops.append(('cast', lambda name=name: t.cast(DataType[name])))
        if getattr(t, 'is_accessor', False):
            ops.append(('base_object', lambda: t.base_object()))
        if type(t).__name__ in ('HplSet', 'HplRange'):
            ops.append(('subtypes', lambda: t.subtypes))
        if type(t).__name__ == 'HplSet':
            ops.append(('to_set', lambda: t.to_set()))
        ops.append(('replace_self_reference', lambda: t.replace_self_reference(_fresh_var())))
        ops.append(('replace_var_reference', lambda: t.replace_var_reference('A', _fresh_this())))
    if is_pred:
        ops += [('negate', lambda: t.negate()), ('is_fully_typed', lambda: t.is_fully_typed())]
        preds = [o for o in others if getattr(o, 'is_predicate', False)]
        if preds:
            q = gen.pick(rng, preds)
            ops.append(('join', lambda: t.join(q)))
        if type(t).__name__ == 'HplPredicateExpression':
            ops.append(('check_some_self_references', lambda: t.check_some_self_references()))
    if is_expr or is_pred:
        for name in REWRITES:
            f = getattr(RW, name)
            if name in ('refactor_reference', 'replace_this_with_var', 'replace_var_with_this'):
                ops.append((name, lambda f=f: f(t, gen.pick(rng, ('A', 'B', 'Zz')))))
            elif name == 'simplify':
                # targets can be results of earlier calls (joins with companions, copies with donated operands):
                # the power filter is applied at the call, not only to the parsed input
                ops.append((name, lambda f=f: None if S.power_bomb(t) else f(t)))
            else:
                ops.append((name, lambda f=f: f(t)))
    if is_event:
        ops += [('aliases', lambda: t.aliases()), ('simple_events', lambda: list(t.simple_events())),
                ('replace_var_reference', lambda: t.replace_var_reference('A', _fresh_this()))]
    if is_prop:
        ops += [('canonical_form', lambda: RW.canonical_form(t)), ('sanity_check', lambda: t.sanity_check()),
                ('events', lambda: list(t.events())), ('is_fully_typed', lambda: t.is_fully_typed())]
        if schemas is not None:
            good, bad = schemas
            ops.append(('type_check_references', lambda: t.type_check_references(good)))
            ops.append(('type_check_references-invalid', lambda: t.type_check_references(bad)))
    # but(): every init field, same value or a value from another handed-out AST
    fields = [a for a in type(t).__attrs_attrs__ if a.init and a.name != 'metadata']
    for a in fields:
        ops.append(('but-same', lambda a=a: ('but-same', a.name, t.but(**{a.name: getattr(t, a.name)}))))
    def sort_of(x):
        for flag in ('is_expression', 'is_predicate', 'is_event', 'is_scope', 'is_pattern', 'is_property'):
            if getattr(x, flag, False):
                return flag
        return None

    if type(t).__name__ == 'HplLiteral':
        v = t.value
        swaps = {1: True, 0: False, True: 1, False: 0}
        if not isinstance(v, str) and v in swaps and type(swaps[v]) is not type(v):
            nv = swaps[v]
            ops.append(('but-equal-value', lambda nv=nv: ('but-equal-value', 'value', nv, t.but(value=nv))))
        if isinstance(v, int) and not isinstance(v, bool):
            ops.append(('but-equal-value', lambda: ('but-equal-value', 'value', float(v), t.but(value=float(v)))))

    donors = {}
    for o in others:
        for x in subtrees(o):
            k = sort_of(x)
            if k:
                donors.setdefault(k, []).append(x)
    for a in fields:
        cur = getattr(t, a.name)
        k = sort_of(cur) if hasattr(type(cur), '__attrs_attrs__') else None
        if k and donors.get(k):
            d = gen.pick(rng, donors[k])
            ops.append(('but-other', lambda a=a, d=d: ('but-other', a.name, d, t.but(**{a.name: d}))))
    # sequence-valued fields (set members, call arguments, properties of a specification): shorter, longer, reordered
    for a in fields:
        cur = getattr(t, a.name)
        if isinstance(cur, tuple) and cur and all(hasattr(type(x), '__attrs_attrs__') for x in cur):
            variants = [cur[:-1], cur[1:], cur + (cur[0],), cur + (cur[-1],), ()]
            if len(cur) >= 2:
                variants.append(tuple(reversed(cur)))
            k = sort_of(cur[0])
            if k and donors.get(k):
                variants.append(cur + (gen.pick(rng, donors[k]),))
            v = gen.pick(rng, variants)
            ops.append(('but-seq', lambda a=a, v=v: ('but-other', a.name, v, t.but(**{a.name: v}))))
    if is_expr:
        # copy-with-changes of the stored type alone (what cast() does internally)
        for name in ('BOOL', 'NUMBER', 'STRING', 'PRIMITIVE', 'ARRAY', 'ANY'):
            dt = DataType[name]
            ops.append(('but-type', lambda dt=dt: ('but-other', 'data_type', dt, t.but(data_type=dt))))
    return ops


def _fresh_var():
    from hpl.ast import HplVarReference
    return HplVarReference('@Q')


def _fresh_var_named(alias):
    from hpl.ast import HplVarReference
    return HplVarReference('@' + alias)


def _fresh_this():
    from hpl.ast import HplThisMessage
    return HplThisMessage()


def run(ctx):
    rng = ctx.rng
    B = BUDGET[ctx.tier]
    PE, PC, PP = hplapi.parser('expression'), hplapi.parser('condition'), hplapi.parser('property')
    W = monitors.WriteBarrier()
    W.start()
    n_asts = ctx.share(B['asts'])
    donors_pool = []

    def run_sequence(root, abs_e, text, base_feats, schemas):
        pub = Published()
        pub.add(root, 'input')
        for d in donors_pool[-2:]:
            pub.add(d, 'other-ast')
        W.published.clear()
        for r, *_ in pub.items:
            W.publish(r)
        prev = root
        seq = []
        if rng.random() < 0.12 and (getattr(root, 'is_expression', False) or getattr(root, 'is_predicate', False)):
            # two replacement calls with one alias: the result of the first (on a bare reference) is a handed-out AST
            # like any other; the second call must not touch it
            from hpl import rewrite as RW
            alias = gen.pick(rng, ('A', 'B', 'Zz'))
            first = hplapi.outcome(gen.pick(rng, (lambda: RW.replace_this_with_var(_fresh_this(), alias),
                                                   lambda: RW.replace_var_with_this(_fresh_var_named(alias), alias))))
            if first[0] == 'ok' and hasattr(type(first[1]), '__attrs_attrs__'):
                pub.add(first[1], 'result-of-a-replacement-on-a-bare-reference')
                W.publish(first[1])
                ctx.begin_case(set(base_feats) | {'api:replace_this_with_var', 'shape:same-alias-twice'})
                hplapi.outcome(lambda: RW.replace_this_with_var(root, alias))
                hplapi.outcome(lambda: RW.replace_var_with_this(root, alias))
                ctx.evaluation('same-alias-twice|' + (A.shape(abs_e) if abs_e is not None else 'prop'), True)
                ctx.count('same_alias_twice')
                changed = pub.check()
                if changed:
                    label, what, r, snap = changed[0]
                    ctx.violation('ast-mutated', {'input': text[:300], 'sequence': [f'replacement on a bare reference with alias {alias}',
                                                                                  f'replace_this_with_var(input, {alias})'],
                                                  'mutated': label, 'what': what,
                                                  'difference': first_difference(snap, monitors.snapshot(r, with_ids=True))},
                                  set(base_feats) | {'api:replace_this_with_var', 'out:structure-or-identity'})
                    return
        quants = [x for x in subtrees(root) if type(x).__name__ == 'HplQuantifier'][:3]
        if quants and rng.random() < 0.35:
            # copies of a quantifier over another domain, and replacements that reach only its domain: the condition
            # object is shared between the caller's quantifier and the new one, whose constructor validates it again
            from hpl import rewrite as RW
            qn = gen.pick(rng, quants)
            doms = [('set', (A.num('1'), A.num('2'))), ('range', A.num('1'), A.num('3'), False, False),
                    ('set', (A.string('a'),)), ('set', (A.boolean(True),))]
            steps = []
            d = hplapi.outcome(hplapi.build_expr, gen.pick(rng, doms))
            if d[0] == 'ok':
                steps.append(('but(domain=<literal collection>)', lambda: qn.but(domain=d[1])))
            for vn in sorted(S.hpl_free_vars(qn.domain))[:2]:
                lit = hplapi.outcome(hplapi.build_expr, gen.pick(rng, (A.num('3'), A.string('a'))))
                if lit[0] == 'ok':
                    steps.append((f'replace_var_reference({vn}, <literal>)', lambda vn=vn, lit=lit: qn.replace_var_reference(vn, lit[1])))
            steps.append(('split_and(input)', lambda: RW.split_and(root) if getattr(root, 'can_be_bool', True) else None))
            steps.append(('replace_this_with_var(input, Q7)', lambda: RW.replace_this_with_var(root, 'Q7')))
            ctx.begin_case(set(base_feats) | {'api:quantifier_copy', 'shape:quantifier-domain-exchange'})
            done = []
            for label, th in steps:
                hplapi.outcome(th)
                done.append(label)
                changed = pub.check()
                if changed:
                    lab, what, r, snap = changed[0]
                    ctx.violation('ast-mutated', {'input': text[:300], 'sequence': done, 'mutated': lab, 'what': what,
                                                  'difference': first_difference(snap, monitors.snapshot(r, with_ids=True))},
                                  set(base_feats) | {'api:quantifier_copy', 'out:input-condition-retyped'})
                    return
            ctx.evaluation('quant-domain-exchange|' + (A.shape(abs_e) if abs_e is not None else 'prop'), True)
            ctx.count('quantifier_domain_exchanges')
        for step in range(rng.randrange(1, 4)):
            k = rng.random()
            if k < 0.5:
                target, tname = root, 'input'
            elif k < 0.75:
                target, tname = gen.pick(rng, subtrees(root)), 'subtree'
            else:
                target, tname = prev, 'previous-result'
            if not hasattr(type(target), '__attrs_attrs__'):
                target, tname = root, 'input'
            others = [r for r, *_ in pub.items if r is not target]
            ops = catalogue(rng, target, others, schemas)
            name, thunk = gen.pick(rng, ops)
            seq.append(f'{name}@{tname}')
            feats = set(base_feats) | {'api:' + name.split('-')[0]}
            ctx.begin_case(feats)
            del W.writes_published[:]
            o = hplapi.outcome(thunk)
            changed = pub.check()
            new_obj = o[0] != 'ok' or (hasattr(type(o[1]), '__attrs_attrs__') and o[1] is not target)
            ctx.evaluation('|'.join(seq) + '|' + (A.shape(abs_e) if abs_e is not None else 'prop'), new_obj)
            ctx.count('snapshots_compared', len(pub.items))
            if name.startswith('but'):
                ctx.count('but_calls')
            if name.split('-')[0] in REWRITES or name in ('canonical_form', 'negate', 'join'):
                ctx.count('rewrite_calls')
            if name == 'cast':
                ctx.count('cast_calls')
            if changed:
                label, what, r, snap = changed[0]
                diff = first_difference(snap, monitors.snapshot(r, with_ids=True)) or ''
                feats = feats | {'out:stored-type-only' if '/data_type/' in diff else 'out:structure-or-identity'}
                ctx.violation('ast-mutated', {
                    'input': text[:300], 'sequence': list(seq), 'mutated': label, 'what': what,
                    'difference': first_difference(snap, monitors.snapshot(r, with_ids=True)),
                    'writes_to_published_nodes': W.writes_published[:4], 'outcome': hplapi.exc_class(o)}, feats)
                return
            # but() contract
            if o[0] == 'ok' and isinstance(o[1], tuple) and o[1] and o[1][0] == 'but-equal-value':
                new = o[1][3]
                fresh = hplapi.outcome(_fresh_construction, target, 'value', o[1][2])
                if fresh[0] == 'ok' and (monitors.snapshot(new, with_meta=False) != monitors.snapshot(fresh[1], with_meta=False)):
                    ctx.violation('but-fresh', {'input': text[:300], 'field': 'value', 'new_value': repr(o[1][2]),
                                                'new': repr(new)[:160], 'fresh': repr(fresh[1])[:160]}, feats)
                    return
                o = ('ok', new)
            if o[0] == 'ok' and isinstance(o[1], tuple) and o[1] and o[1][0] in ('but-same', 'but-other'):
                if o[1][0] == 'but-same' and o[1][2] is not target:
                    ctx.violation('but-identity', {'input': text[:300], 'field': o[1][1], 'sequence': list(seq)}, feats)
                    return
                if o[1][0] == 'but-other':
                    new = o[1][3]
                    fld = o[1][1]
                    if new is target:
                        cur_v = getattr(target, fld)
                        if isinstance(cur_v, tuple) and (len(cur_v) != len(o[1][2]) or any(x is not y for x, y in zip(cur_v, o[1][2]))):
                            ctx.violation('but-ignored-change', {'input': text[:300], 'field': fld,
                                                                 'current_length': len(cur_v), 'new_length': len(o[1][2])}, feats)
                            return
                    if new is not target:
                        fresh = hplapi.outcome(_fresh_construction, target, fld, o[1][2])
                        if fresh[0] == 'ok' and not (new == fresh[1] and monitors.snapshot(new, with_meta=False) == monitors.snapshot(fresh[1], with_meta=False)):
                            ctx.violation('but-fresh', {'input': text[:300], 'field': fld, 'new': str(new)[:200],
                                                        'fresh': str(fresh[1])[:200]}, feats)
                            return
                        if new.metadata is target.metadata or new.metadata != target.metadata:
                            ctx.violation('but-metadata', {'input': text[:300], 'field': fld,
                                                           'shared': new.metadata is target.metadata}, feats)
                            return
                    o = ('ok', new)
            if name == 'cast' and o[0] == 'ok' and o[1] is not target:
                new = o[1]
                fresh = hplapi.outcome(_fresh_construction, target, 'data_type', new.data_type)
                ctx.count('cast_copies_judged')
                if fresh[0] == 'ok' and not (new == fresh[1] and monitors.snapshot(new, with_meta=False) == monitors.snapshot(fresh[1], with_meta=False)):
                    ctx.violation('but-fresh', {'input': text[:300], 'api': 'cast', 'type': str(new.data_type),
                                                'new': repr(new)[:200], 'fresh': repr(fresh[1])[:200]}, feats)
                    return
                if new.metadata is target.metadata or new.metadata != target.metadata:
                    ctx.violation('but-metadata', {'input': text[:300], 'api': 'cast',
                                                   'shared': new.metadata is target.metadata}, feats)
                    return
            if o[0] == 'ok' and hasattr(type(o[1]), '__attrs_attrs__'):
                prev = o[1]
                pub.add(prev, 'result-of-' + name)
                W.publish(prev)
            elif o[0] == 'ok' and isinstance(o[1], (list, tuple)) and o[1] and all(hasattr(type(x), '__attrs_attrs__') for x in o[1]):
                prev = o[1][0]
                for x in o[1][:3]:
                    pub.add(x, 'result-of-' + name)
                    W.publish(x)
        if rng.random() < 0.01:
            ctx.sample({'input': text[:200], 'sequence': seq, 'published_asts_watched': len(pub.items),
                        'verdict': 'all snapshots, hashes and deep-copy equalities unchanged'})

    for n in range(n_asts):
        k = n % 4
        schemas = None
        if k == 3:
            pg = gen.PropGen(rng, maxdepth=2, max_width=rng.choice((1, 2, 3)), expose_disj_aliases=0.0, const_preds=0.05)
            p, sch, bound = pg.make(n=n)
            text = A.render_prop(p)
            o = hplapi.outcome(PP.parse, text)
            abs_e = None
            feats = {'shape:property'}
            if o[0] == 'ok':
                good = {}
                for topic, st in sch.items():
                    good[topic] = hplapi.type_token(st, 'T_' + topic.strip('/~').replace('/', '_'))
                for pos, m in bound.items():
                    for alias, st in m.items():
                        good[alias] = hplapi.type_token(st, 'A_' + alias)
                bad = dict(good)
                from hpl.types import MessageType
                for key in list(bad):
                    bad[key] = MessageType('Empty')
                schemas = (good, bad)
        else:
            t = gen.pick(rng, (gen.BOOL, gen.BOOL, gen.NUM))
            case = S.random_case(rng, t, maxdepth=rng.randrange(1, 5), bias='simplify' if n % 2 else 'plain',
                                 n_aliases=rng.choice((0, 1, 1, 2)))
            if n % 3 == 0 and case.aliases:
                # an alias of the same message type: replacing it by the current message makes references coincide
                a0 = sorted(case.aliases)[0]
                case.aliases[a0] = case.this
                tg = gen.Typed(rng, this=case.this, aliases=case.aliases, maxdepth=rng.randrange(1, 4))
                case.e = tg.prim(t, tg.maxdepth)
            if n % 7 == 0:
                c = ('const', gen.pick(rng, ('NAN', 'INF', 'PI')))
                case.e = ('bin', '<', case.e, c) if t == gen.NUM else (('bin', 'and', case.e, ('bin', '<', A.num('1'), c)) if t == gen.BOOL else case.e)
                t = gen.BOOL if t in (gen.NUM, gen.BOOL) else t
            if n % 11 == 0:
                # aggregates over tiny sets of references under an operator with numeric parameters: folding rules
                # that hand back a member of the caller's set meet constructors that narrow their operands
                tg3 = gen.Typed(rng, this=case.this, aliases=case.aliases, maxdepth=1)
                r1, r2 = tg3.ref(gen.NUM, 0), tg3.ref(gen.NUM, 0)
                members = None
                if r1 is not None and r2 is not None:
                    members = gen.pick(rng, ((r1,), (r1, r1), (r1, r2), (r1, A.num('0'))))
                    if rng.random() < 0.2:
                        big = ('range', A.num(gen.pick(rng, ('0', '1'))), A.num(gen.pick(rng, ('999', '1000', '1500', '20000'))), False, False)
                        case.e = ('bin', gen.pick(rng, ('>', '<=')), ('call', gen.pick(rng, ('sum', 'prod', 'len')), (big,)), r1)
                        t = gen.BOOL
                        members = None
                    elif rng.random() < 0.35:
                        # membership of a reference in a range that is unbounded on one side
                        inf, k = ('const', 'INF'), gen.pick(rng, (A.num('0'), A.num('3'), r2))
                        rg = gen.pick(rng, (('range', k, inf, False, False), ('range', k, inf, True, False),
                                            ('range', A.neg(inf), k, False, False), ('range', A.neg(inf), k, False, True),
                                            ('range', k, inf, False, True), ('range', A.neg(inf), inf, False, False)))
                        case.e = ('bin', 'in', r1, rg)
                        if rng.random() < 0.4:
                            case.e = ('bin', gen.pick(rng, ('and', 'or')), case.e, ('bin', '>', r2, A.num('1')))
                        t = gen.BOOL
                        members = None
                if r1 is not None and r2 is not None and members is not None:
                    call = ('call', gen.pick(rng, ('max', 'min', 'sum', 'prod')), (('set', members),))
                    call = A.neg(call) if rng.random() < 0.3 else call
                    case.e = ('bin', gen.pick(rng, ('>', '<=', '+', '*')), call, gen.pick(rng, (A.num('3'), r2)))
                    if case.e[1] in ('+', '*'):
                        case.e = ('bin', '<', case.e, A.num('10'))
                    t = gen.BOOL
            if n % 13 == 5:
                # quantifiers whose variable only occurs where any primitive fits (so its stored type stays wide), over
                # domains of references, also nested with the outer variable inside the inner domain
                tg5 = gen.Typed(rng, this=case.this, aliases=case.aliases, maxdepth=1)
                r1, r2 = tg5.ref(gen.NUM, 0), tg5.ref(gen.NUM, 0)
                arr, _ = tg5.ref_where(lambda pt: pt[0] == 'arr' and pt[1] == gen.NUM, 1)
                if r1 is not None and r2 is not None:
                    body = ('bin', gen.pick(rng, ('=', '!=')), A.var('qi'), r2)
                    if rng.random() < 0.5:
                        body = ('bin', 'and', body, ('bin', '>', r1, A.num('0')))
                    inner_dom = gen.pick(rng, [('set', (r1, A.num('7'))), ('set', (r1, r2))] + ([arr] if arr is not None else []))
                    q = ('quant', gen.pick(rng, ('forall', 'exists')), 'qi', inner_dom, body)
                    if rng.random() < 0.5:
                        q = ('quant', 'forall', 'qv', ('range', A.num('1'), A.num('3'), False, False),
                             ('quant', q[1], 'qi', ('set', (A.var('qv'), A.num('7'))), body))
                    case.e = q
                    t = gen.BOOL
            if not A.renderable(case.e):
                continue
            if t == gen.BOOL and rng.random() < 0.5:
                # a companion predicate over the same fields (for join and for sharing reference names)
                tg2 = gen.Typed(rng, this=case.this, aliases=case.aliases, maxdepth=2)
                comp = tg2.bool(2)
                if A.renderable(comp):
                    oc = hplapi.outcome(PC.parse, A.render_expr(comp))
                    if oc[0] == 'ok' and not getattr(oc[1], 'is_vacuous', False):
                        donors_pool.append(oc[1])
            abs_e = case.e
            text = A.render_expr(case.e)
            o = hplapi.outcome((PC if (k == 2 and t == gen.BOOL) else PE).parse, text)
            feats = A.features(case.e)
            if any(x[0] == 'call' and x[1] in ('sum', 'prod') and x[2][0][0] == 'set' for x in A.walk(case.e)):
                feats = feats | {'shape:sum-or-prod-of-set'}
        if o[0] != 'ok':
            ctx.skip('rejected:' + type(o[1]).__name__)
            continue
        root = o[1]
        if (getattr(root, 'is_expression', False) or getattr(root, 'is_predicate', False)) and S.power_bomb(root):
            ctx.skip('power-too-large-to-fold')
            continue
        if rng.random() < 0.3:
            # user annotations on nodes of the handed-out tree (metadata is the one mutable, caller-owned slot)
            for x in [root] + [gen.pick(rng, subtrees(root)) for _ in range(2)]:
                if hasattr(type(x), '__attrs_attrs__') and isinstance(getattr(x, 'metadata', None), dict):
                    x.metadata['note'] = f'n{n}'
        for _ in range(B['seqs']):
            run_sequence(root, abs_e, text, feats, schemas)
        if getattr(root, 'is_expression', False) or getattr(root, 'is_predicate', False) or (
                getattr(root, 'is_property', False) and rng.random() < 0.5):
            donors_pool.append(root)
            if len(donors_pool) > 6:
                donors_pool.pop(0)

    # human-written inputs (tests and documentation of the repository), shard 0
    if ctx.shard == 0:
        from .. import corpus

        for level, prs in (('property', PP), ('condition', PC), ('expression', PE)):
            for origin, text in corpus.accepted(level):
                o = hplapi.outcome(prs.parse, text)
                if o[0] != 'ok' or not hasattr(type(o[1]), '__attrs_attrs__'):
                    continue
                if level != 'property' and S.power_bomb(o[1]):
                    continue
                ctx.count('corpus_asts')
                for _ in range(3):
                    run_sequence(o[1], None, text, {'shape:corpus', 'shape:' + level}, None)

    # equality and hashing ignore metadata (properties parsed with different annotations)
    for n in range(min(200, n_asts)):
        pg = gen.PropGen(rng, maxdepth=1, max_width=2)
        p, _, _ = pg.make(n=n, with_meta=False)
        a = hplapi.outcome(PP.parse, A.render_prop(('prop', (('id', 'one'),),) + p[2:]))
        b = hplapi.outcome(PP.parse, A.render_prop(('prop', (('id', 'two'), ('title', '"t"')),) + p[2:]))
        if a[0] == 'ok' and b[0] == 'ok':
            ctx.begin_case({'api:eq'})
            ctx.evaluation('eqmeta', False)
            ctx.count('metadata_equality_judged')
            if not (a[1] == b[1]) or hash(a[1]) != hash(b[1]):
                ctx.violation('eq-ignores-metadata', {'input': A.render_prop(p)}, {'api:eq'})
    W.stop()
    ctx.count('W_writes_total', W.writes_total)


def _fresh_construction(target, fld, value):
    kwargs = {}
    for a in type(target).__attrs_attrs__:
        if a.init and a.name != 'metadata':
            kwargs[a.name] = value if a.name == fld else getattr(target, a.name)
    return type(target)(**kwargs)
