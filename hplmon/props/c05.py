"""C05 - definite type errors are always rejected."""
from .. import absyn as A
from .. import gen, hplapi, semantic as S, shrink
from ..model import typing as TY

ID = 'C05'
LEVEL = 'exploration'
TECHNIQUE = ('runtime monitoring (fault injection into the inputs): exactly one definite type clash is injected into a '
             'well-typed generated predicate and the real parser entry points are observed; oracle = TypeError expected, '
             'from independent signature tables')
RULE = ('Start from a well-typed boolean term (typed generator over a random schema); inject exactly one clash at a '
        'uniformly chosen eligible position: (a) an argument whose parameter type is P is replaced by a literal, an '
        'operator result or a function result of a kind disjoint from P (every operand/argument position, range '
        'bounds, set elements, quantifier domain and body, index, predicate root); (b) an atom is conjoined that uses '
        'an existing reference at a kind disjoint from the one an existing use definitely fixes. The text must raise '
        'TypeError at the expression, condition and predicate entry points (mode b: predicate entry points only) and '
        'inside event predicates of properties. Non-trivial by construction; distinct = (mode, parent operator or '
        'function, slot, injected kind, depth).')
RULE_ADDED = ' Since the seeding rounds: mode (c) - a bound variable required at two disjoint kinds (five nesting shapes, literal domains, set domains of operator/function results) with a well-typed twin; own-alias spelling of the second use; literal-domain clashes whose deciding use sits under a nested quantifier; the module-level parse_* helpers (1 case in 32, sibling helper of the same start rule called first).'
ASSUMPTIONS = ['clashes mediated only by equality between two different references are not injected; "definite" means '
               'fixed by a parameter of a single base type in my signature tables (Appendix A.2/A.3)']
FLOORS = {
    'quick': {'evaluations': 8000, 'distinct_nontrivial': 600, 'mode_a': 4000, 'mode_b': 2000, 'in_property': 800,
              'TypeError_observed': 6000},
    'thorough': {'evaluations': 200000, 'distinct_nontrivial': 3000, 'mode_a': 100000, 'mode_b': 50000,
                 'in_property': 20000, 'TypeError_observed': 150000},
}
BUDGET = {'quick': 30000, 'thorough': 2000000}
TIMEOUT = {'quick': 900, 'thorough': 7200}

KINDS = {
    'BOOL': (A.boolean(True), A.boolean(False), ('bin', '<', A.num('1'), A.num('2')), A.not_(A.boolean(True)),
             ('call', 'bool', (A.num('1'),))),
    'NUMBER': (A.num('1'), A.num('0.5'), ('bin', '+', A.num('1'), A.num('2')), ('call', 'abs', (A.num('1'),)),
               A.neg(A.num('1')), ('const', 'PI')),
    'STRING': (A.string('a'), ('call', 'str', (A.num('1'),))),
    'SET': (('set', (A.num('1'), A.num('2'))),),
    'RANGE': (('range', A.num('1'), A.num('2'), False, False),),
}
ATOM_KINDS = {k: tuple(x for x in v if A.level(x) == 10) for k, v in KINDS.items()}


def kinds_disjoint_from(P):
    return [k for k in KINDS if k not in P]


def slots(e):
    """list of (path, param-type-set, parent description, atom_only) for every child slot of e"""
    out = []

    def rec(x, path, depth):
        t = x[0]
        if t == 'un':
            P = TY.UNARY[x[1]][0]
            out.append((path + (0,), P, 'u' + x[1], False, depth))
        elif t == 'bin':
            sig = TY.BINARY[x[1]]
            out.append((path + (0,), sig[0], x[1] + '.0', False, depth))
            out.append((path + (1,), sig[1], x[1] + '.1', False, depth))
        elif t == 'quant':
            out.append((path + (0,), TY.COMPOUND, 'quant.domain', True, depth))
            out.append((path + (1,), TY.BOOL, 'quant.body', False, depth))
        elif t == 'set':
            for i in range(len(x[1])):
                out.append((path + (i,), TY.PRIM, 'set.element', False, depth))
        elif t == 'range':
            out.append((path + (0,), TY.NUM, 'range.min', False, depth))
            out.append((path + (1,), TY.NUM, 'range.max', False, depth))
        elif t == 'index':
            out.append((path + (1,), TY.NUM, 'index', False, depth))
        elif t == 'call':
            ovs = TY.FUNCTIONS[x[1]]
            P = frozenset()
            for params, _, _ in ovs:
                if len(params) == 1:
                    P |= params[0]
            out.append((path + (0,), P, 'call:' + x[1], False, depth))
        for i, k in enumerate(A.children(x)):
            rec(k, path + (i,), depth + 1)

    rec(e, (), 0)
    return out


def get_at(e, path):
    for i in path:
        e = A.children(e)[i]
    return e


def set_at(e, path, new):
    if not path:
        return new
    ks = list(A.children(e))
    ks[path[0]] = set_at(ks[path[0]], path[1:], new)
    return A.rebuild(e, ks)


def enclosing_quant_var(e, path):
    """name of the variable of the quantifier whose body slot is exactly at path (else None)"""
    parent = get_at(e, path[:-1])
    if parent[0] == 'quant' and path[-1] == 1:
        return parent[2]
    return None


def inject_clash(rng, e, root_is_predicate=False):
    """(e', info) with exactly one definite clash of mode (a), or None"""
    cands = slots(e)
    if root_is_predicate:
        cands.append(((), TY.BOOL, 'predicate-root', False, 0))
    rng.shuffle(cands)
    for path, P, parent, atom_only, depth in cands:
        ks = kinds_disjoint_from(P)
        if parent in ('=.0', '=.1', '!=.0', '!=.1'):
            # both sides must agree: a literal of another primitive kind than a definite sibling also clashes
            sib = get_at(e, path[:-1] + (1 - path[-1],))
            sk = definite_kind(sib)
            if sk is not None:
                ks = ks + [k for k in ('BOOL', 'NUMBER', 'STRING') if k != sk]
        if not ks:
            continue
        kind = gen.pick(rng, ks)
        pool = ATOM_KINDS[kind] if atom_only else KINDS[kind]
        if not pool:
            continue
        repl = gen.pick(rng, pool)
        if path:
            v = enclosing_quant_var(e, path)
            if v is not None:
                # keep the bound variable used, so that a sanity error does not pre-empt the type error
                repl = ('bin', '+', A.var(v), A.num('1')) if kind == 'NUMBER' else ('set', (A.var(v),)) if kind == 'SET' else None
                if repl is None:
                    continue
            else:
                old = get_at(e, path)
                # the replaced subtree may have been the only use of an enclosing bound variable
                if _drops_needed_variable(e, path, old):
                    continue
        return set_at(e, path, repl), {'mode': 'a', 'slot': parent, 'kind': kind, 'depth': depth,
                                       'replacement': A.render_expr(repl)}
    return None


def _drops_needed_variable(e, path, old):
    """would removing `old` leave some enclosing quantifier without a use of its variable?"""
    used = A.all_vars(old)
    if not used:
        return False
    for n in range(len(path)):
        anc = get_at(e, path[:n])
        if anc[0] == 'quant' and anc[2] in used and len(path) > n and path[n] == 1:
            body = anc[4]
            rest = set_at(body, path[n + 1:], A.num('0')) if len(path) > n + 1 else A.num('0')
            if anc[2] not in A.all_vars(rest):
                return True
    return False


def definite_kind(x):
    t = x[0]
    if t == 'lit':
        return {'bool': 'BOOL', 'num': 'NUMBER', 'str': 'STRING'}[x[1]]
    if t == 'const':
        return 'NUMBER'
    if t == 'un':
        return 'BOOL' if x[1] == 'not' else 'NUMBER'
    if t == 'bin':
        r = TY.BINARY[x[1]][2]
        return 'BOOL' if r == TY.BOOL else 'NUMBER'
    if t == 'quant':
        return 'BOOL'
    if t == 'call':
        r = TY.call_result(x[1])
        return next(iter(r)) if r and len(r) == 1 else None
    if t == 'set':
        return 'SET'
    if t == 'range':
        return 'RANGE'
    return None


USES = {
    'BOOL': lambda r: A.not_(r),
    'NUMBER': lambda r: ('bin', '>', ('bin', '+', r, A.num('1')), A.num('0')),
    'STRING': lambda r: ('bin', '=', r, A.string('zz')),
    'ARRAY': lambda r: ('bin', 'in', A.num('1'), r),
    'MESSAGE': lambda r: ('bin', '=', ('field', r, 'zz'), A.num('1')),
}


def reference_uses(e):
    """(reference expr, definite kind fixed by its slot, via) for references free of bound variables"""
    out = []

    def is_ref(x):
        return x[0] in ('field', 'index') or (x[0] == 'var')

    def rec(x, bound):
        t = x[0]
        if t == 'quant':
            rec(x[3], bound)
            rec(x[4], bound | {x[2]})
            return
        kids = A.children(x)
        for i, k in enumerate(kids):
            if is_ref(k) and not (A.all_vars(k) & bound) and k[0] != 'var':
                K, via = None, None
                if t == 'un':
                    K, via = ('BOOL' if x[1] == 'not' else 'NUMBER'), 'operator'
                elif t == 'bin':
                    P = TY.BINARY[x[1]][i]
                    if P == TY.BOOL:
                        K, via = 'BOOL', 'operator'
                    elif P == TY.NUM:
                        K, via = 'NUMBER', 'operator'
                    elif x[1] == 'in' and i == 1:
                        K, via = 'ARRAY', 'operator'
                    elif x[1] in ('=', '!='):
                        sk = definite_kind(kids[1 - i])
                        if sk in ('BOOL', 'NUMBER', 'STRING'):
                            K, via = sk, 'equality-with-definite'
                elif t == 'range':
                    K, via = 'NUMBER', 'range-bound'
                elif t == 'index':
                    K, via = ('ARRAY', 'index-base') if i == 0 else ('NUMBER', 'index')
                elif t == 'field' and i == 0:
                    K, via = 'MESSAGE', 'field-base'
                elif t == 'call':
                    ovs = TY.FUNCTIONS[x[1]]
                    P = frozenset().union(*[p[0][0] for p in ovs if len(p[0]) == 1])
                    if P == TY.NUM:
                        K, via = 'NUMBER', 'function-argument'
                    elif P == TY.COMPOUND:
                        K, via = 'ARRAY', 'function-argument'
                if K is not None:
                    out.append((k, K, via))
            rec(k, bound)

    rec(e, frozenset())
    return out


def inject_reuse(rng, e, alias=None):
    """mode (b): (e', info) or None; with alias, the second use spells the reference through the event's own
    alias (`@M.x` next to `x`): the two become one reference only when the event rewrites its alias"""
    uses = reference_uses(e)
    if alias is not None:
        uses = [u for u in uses if A.has_this(u[0])]
    if not uses:
        return None
    r, K, via = gen.pick(rng, uses)
    r_host = r
    if alias is not None:
        r = A.replace_this(r, A.var(alias))
    others = [k for k in USES if k != K]
    # a reference used as ARRAY/MESSAGE and then at a primitive kind, or at two different primitive kinds
    K2 = gen.pick(rng, others)
    if K2 == 'MESSAGE' and r[0] == 'field' and False:
        return None
    atom = USES[K2](r)
    generic = None
    if K in ('BOOL', 'NUMBER', 'STRING') and K2 in ('BOOL', 'NUMBER', 'STRING') and rng.random() < 0.4:
        # a third occurrence whose type stays generic (PRIMITIVE), placed between the two definite uses
        generic = gen.pick(rng, (('call', 'bool', (r,)), ('bin', '=', ('call', 'str', (r,)), A.string('q')),
                                 ('bin', 'in', r, ('set', (r,))), ('bin', '!=', ('call', 'int', (r,)), A.num('7'))))
    parts = [e, atom] if generic is None else [e, generic, atom]
    if rng.random() < 0.5:
        parts.reverse()
    e2 = parts[0]
    for q in parts[1:]:
        e2 = ('bin', 'and', e2, q)
    return e2, {'mode': 'b', 'reference': A.render_expr(r_host), 'first_use': K, 'via': via, 'second_use': K2,
                'generic_middle': generic is not None, 'through_own_alias': alias}


def inject_bound_clash(rng, e):
    """mode (c): a quantified variable required at two disjoint primitive kinds, at the same or at different nesting
    levels of its binder's condition; (e', info, well-typed twin) - the twin uses the variable twice at one kind"""
    K1, K2 = rng.sample(('BOOL', 'NUMBER', 'STRING'), 2)
    v, w, z = 'qv', 'qw', 'qz'
    dom, dom2 = A.fld('qdom'), A.fld('qdom2')  # array fields whose element type nothing else fixes
    shape = gen.pick(rng, ('same-level', 'outer-and-nested', 'nested-and-outer', 'sibling-nested', 'nested-domain',
                           'literal-domain', 'literal-domain'))
    q1, q2 = gen.pick(rng, ('forall', 'exists')), gen.pick(rng, ('forall', 'exists'))
    if shape == 'literal-domain':
        # the domain is a literal whose members fix the element kind Kd; the variable occurs first in a position that
        # constrains nothing (compared with a field, member of a set of fields) and later at a kind disjoint from Kd
        Kd = gen.pick(rng, ('NUMBER', 'NUMBER', 'STRING', 'BOOL'))
        lits = {'NUMBER': (A.num('1'), A.num('2')), 'STRING': (A.string('a'), A.string('b')),
                'BOOL': (A.boolean(True), A.boolean(False))}[Kd]
        if rng.random() < 0.4:
            # members that are not literals but whose kind is just as definite: negative numbers, operator and
            # function results (over literals or over fields)
            derived = {'NUMBER': (A.neg(A.num('1')), ('bin', '+', A.fld('qn'), A.num('1')), ('call', 'len', (A.fld('qarr'),)),
                                  ('bin', '*', A.num('2'), A.num('3'))),
                       'STRING': (('call', 'str', (A.fld('qn'),)), ('call', 'str', (A.num('1'),))),
                       'BOOL': (A.not_(A.fld('qb')), ('bin', '<', A.fld('qn'), A.num('2')), ('bin', 'and', A.fld('qb'), A.fld('qc')))}[Kd]
            lits = tuple(gen.pick(rng, derived if rng.random() < 0.6 else lits) for _ in range(rng.randrange(1, 4)))
            if all(m[0] == 'lit' for m in lits):
                lits = lits + (gen.pick(rng, derived),)
        ldom = ('range', A.num('0'), A.num('3'), False, False) if (Kd == 'NUMBER' and rng.random() < 0.3) else ('set', lits)
        Kc = gen.pick(rng, [k for k in ('BOOL', 'NUMBER', 'STRING') if k != Kd])
        generic = gen.pick(rng, (('bin', '=', A.var(v), A.fld('qg')), ('bin', 'in', A.var(v), ('set', (A.fld('qg'), A.fld('qh')))),
                                 ('bin', '!=', A.fld('qg'), A.var(v))))

        nested = rng.random() < 0.35  # the deciding occurrence sits in the condition of a nested quantifier

        def lblock(K):
            u = USES[K](A.var(v))
            if nested:
                u = ('quant', q2, w, dom2, ('bin', 'and', ('bin', '>', A.var(w), A.num('0')), u))
            return ('quant', q1, v, ldom, ('bin', 'and', generic, u))
        first = rng.random() < 0.5
        e2 = ('bin', 'and', lblock(Kc), e) if first else ('bin', 'and', e, lblock(Kc))
        twin = ('bin', 'and', lblock(Kd), e) if first else ('bin', 'and', e, lblock(Kd))
        return e2, {'mode': 'c', 'shape': shape + ('-nested-use' if nested else ''), 'first_use': Kd, 'second_use': Kc,
                    'via': 'literal-domain'}, twin

    def block(Ka, Kb):
        ua, ub = USES[Ka](A.var(v)), USES[Kb](A.var(v))
        uw = ('bin', '>', A.var(w), A.num('0'))
        uz = ('bin', '<', A.var(z), A.num('5'))
        if shape == 'same-level':
            body = ('bin', 'and', ua, ub)
        elif shape == 'outer-and-nested':
            body = ('bin', 'and', ua, ('quant', q2, w, dom2, ('bin', 'and', uw, ub)))
        elif shape == 'nested-and-outer':
            body = ('bin', 'and', ('quant', q2, w, dom2, ('bin', 'and', uw, ua)), ub)
        elif shape == 'sibling-nested':
            body = ('bin', 'and', ('quant', q2, w, dom2, ('bin', 'and', uw, ua)),
                    ('quant', q2, z, dom2, ('bin', 'and', uz, ub)))
        else:  # the second use sits in the domain of a nested quantifier
            if Kb != 'NUMBER':
                body = ('bin', 'and', ua, ('quant', q2, w, ('set', (('call', 'int', (A.num('1'),)), A.num('2'))),
                                          ('bin', 'and', uw, ub)))
            else:
                body = ('bin', 'and', ua, ('quant', q2, w, ('range', A.num('0'), A.var(v), False, False), uw))
        return ('quant', q1, v, dom, body)

    first = rng.random() < 0.5
    e2 = ('bin', 'and', block(K1, K2), e) if first else ('bin', 'and', e, block(K1, K2))
    twin = ('bin', 'and', block(K1, K1), e) if first else ('bin', 'and', e, block(K1, K1))
    return e2, {'mode': 'c', 'shape': shape, 'first_use': K1, 'second_use': K2, 'via': 'bound-variable'}, twin


def run(ctx):
    rng = ctx.rng
    n = ctx.share(BUDGET[ctx.tier])
    P = {k: hplapi.parser(k) for k in ('property', 'predicate', 'condition', 'expression')}

    def text_for(level, e, topic='a', alias=None):
        if level == 'property':
            ev = ('ev', topic, alias, e)
            return A.render_prop(('prop', (), ('scope', 'globally', None, None), ('pat', 'no', ev, None, None)))
        toks = A.expr_tokens(e)
        if level == 'predicate':
            toks = ['{'] + toks + ['}']
        return A.layout(toks)

    for i in range(n):
        case = S.random_case(rng, gen.BOOL, maxdepth=rng.randrange(1, 5), n_aliases=0)
        e = case.e
        if not A.renderable(e) or e[0] == 'lit':
            continue
        mode_b = rng.random() < 0.35
        base_e = e
        own_alias = None
        if i % 8 == 7:
            level = gen.pick(rng, ('condition', 'predicate', 'property'))
            inj = inject_bound_clash(rng, e)
            base_e = inj[2]
            inj = inj[:2]
        elif mode_b:
            level = gen.pick(rng, ('condition', 'predicate', 'property'))
            if level == 'property' and rng.random() < 0.5:
                own_alias = 'M'
            inj = inject_reuse(rng, e, own_alias)
        else:
            level = gen.pick(rng, ('expression', 'condition', 'predicate', 'property'))
            inj = inject_clash(rng, e, root_is_predicate=level != 'expression')
        if inj is None:
            ctx.skip('no-eligible-position')
            continue
        e2, info = inj
        if not A.renderable(e2):
            ctx.skip('not-renderable')
            continue
        base_text = text_for(level, base_e, alias=own_alias)
        ob = hplapi.outcome(P[level].parse, base_text)
        if ob[0] != 'ok':
            ctx.skip('base-rejected:' + type(ob[1]).__name__)
            continue
        text = text_for(level, e2, alias=own_alias)
        if own_alias:
            ctx.count('through_own_alias')
        feats = A.features(e2) | {'api:parse_' + level, 'shape:mode-' + info['mode']}
        if info['mode'] == 'b':
            feats.add('shape:definite-via-' + info['via'])
        elif info['mode'] == 'c':
            feats.add('shape:bound-variable-' + info['shape'])
        else:
            feats.add('shape:slot-' + info['slot'])
        ctx.begin_case(feats)
        if i % 32 == 5:
            # the module-level one-shot helpers are entry points too; before a predicate-level call the sibling
            # expression-level helper is called on the well-typed twin (same start rule, different root demand)
            from hpl import parser as hp

            conv = {'property': hp.parse_property, 'predicate': hp.parse_predicate, 'condition': hp.parse_condition,
                    'expression': hp.parse_expresion}
            if level == 'condition':
                hplapi.outcome(hp.parse_expresion, base_text)
            elif level == 'expression':
                hplapi.outcome(hp.parse_condition, base_text)
            o = hplapi.outcome(conv[level], text)
            feats = feats | {'api:convenience-function'}
            ctx.count('convenience_function_cases')
        else:
            o = hplapi.outcome(P[level].parse, text)
        cls = hplapi.exc_class(o)
        sig = '|'.join(str(info.get(k)) for k in ('mode', 'slot', 'kind', 'depth', 'via', 'first_use', 'second_use', 'shape')) + '|' + level
        ctx.evaluation(sig, True)
        ctx.count('mode_' + info['mode'])
        if level == 'property':
            ctx.count('in_property')
        ctx.count(cls + '_observed')
        if i % 300 == 0:
            ctx.sample({'well_typed': base_text[:200], 'with_clash': text[:200], 'injection': info, 'outcome': cls})
        if cls == 'TypeError':
            continue
        if cls == 'HplSyntaxError':
            ctx.count('harness_syntax_errors')
            ctx.skip('harness-rendering')
            continue
        kind = 'clash-accepted' if cls == 'ok' else 'clash-wrong-error'

        def shrinker(e=e, info=info, level=level, kind=kind):
            # minimise the well-typed host while the same injection still escapes
            def outcome_of(host):
                if info['mode'] == 'b':
                    # re-inject deterministically: same reference, same second use
                    uses = [u for u in reference_uses(host) if A.render_expr(u[0]) == info['reference'] and u[1] == info['first_use']]
                    if not uses:
                        return None
                    e3 = ('bin', 'and', host, USES[info['second_use']](uses[0][0]))
                    if info.get('generic_middle'):
                        e3 = ('bin', 'and', ('bin', 'and', host, ('call', 'bool', (uses[0][0],))),
                              USES[info['second_use']](uses[0][0]))
                else:
                    return None
                if hplapi.outcome(P[level].parse, text_for(level, host))[0] != 'ok':
                    return None
                o3 = hplapi.outcome(P[level].parse, text_for(level, e3))
                return (e3, hplapi.exc_class(o3))
            if info['mode'] == 'b':
                def fails(c):
                    r = outcome_of(c)
                    return r is not None and r[1] == cls
                m = shrink.shrink_expr(e, fails)
                r = outcome_of(m)
                if r is not None:
                    return ({'with_clash': text_for(level, r[0]), 'injection': info, 'outcome': r[1]},
                            A.features(r[0]) | {'api:parse_' + level, 'shape:mode-b', 'shape:definite-via-' + info['via']})
            return None

        ctx.violation(kind, {'well_typed': base_text, 'with_clash': text, 'injection': info, 'outcome': cls,
                             'message': str(o[1])[:160] if o[0] != 'ok' else None}, feats, shrinker)
