"""C18 - a specification file is exactly its sequence of annotated properties."""
from .. import absyn as A
from .. import compare, gen, hplapi, monitors, shrink
from ..model import grammar

ID = 'C18'
LEVEL = 'exploration'
TECHNIQUE = ('runtime monitoring: the specification parser and the property parser are driven on the same generated '
             'members; oracle = per-member snapshot equality (order, count, metadata) + comparison with the generating '
             'abstract trees + error-class agreement for files with exactly one invalid member')
RULE = ('Files of 1-6 generated properties (every ending: bare topic, alias, predicate, within n s/ms; any subset and '
        'order of # id / # title / # description; separators from space, newline, blank line, tab, CRLF, CR, form feed) are parsed '
        'as a whole and member by member; results must agree in count, order, structure and metadata, and each '
        'property must carry exactly its own annotations. Files with exactly one invalid member (type error, sanity '
        'error, duplicate key, unknown key, trailing annotation, syntax error, empty file) must raise the class the '
        'member raises alone. Non-trivial = k >= 2 and >= 1 annotation; distinct = (k, endings, annotation pattern, '
        'fault kind).')
ASSUMPTIONS = [
    'a syntactically invalid member is only used when my recogniser also rejects the concatenated file '
    '(a truncated member can legitimately fuse with its neighbour)',
]
FLOORS = {
    'quick': {'evaluations': 4000, 'valid_files': 2500, 'invalid_files': 1200, 'distinct_nontrivial': 500,
              'members_compared': 8000},
    'thorough': {'evaluations': 100000, 'valid_files': 60000, 'invalid_files': 30000, 'distinct_nontrivial': 5000,
                 'members_compared': 200000},
}
BUDGET = {'quick': 12000, 'thorough': 600000}
SEPS = (' ', '\n', '\n\n', '\t', '\r\n', '  \n  ', '\f', '\n\f\n', '\r')
FAULTS = ('type', 'sanity-ref', 'sanity-dup', 'dup-key', 'unknown-key', 'trailing-annotation', 'syntax', 'empty')
EXPECTED_CLASS = {'type': 'TypeError', 'sanity-ref': 'HplSanityError', 'sanity-dup': 'HplSanityError',
                  'dup-key': 'HplSyntaxError', 'unknown-key': 'HplSyntaxError', 'trailing-annotation': 'HplSyntaxError',
                  'syntax': 'HplSyntaxError'}


def ending(p):
    pat = p[3]
    if pat[4] is not None:
        return 'within-' + pat[4][1]
    last = pat[3] if pat[3] is not None else pat[2]
    if last[0] == 'disj':
        return 'disj'
    if last[3] is not None:
        return 'pred'
    if last[2] is not None:
        return 'alias'
    return 'topic'


def member_text(p, rng):
    return A.layout(A.prop_tokens(p), rng, 'random' if rng.random() < 0.5 else 'space')


def faulty_member(rng, kind, base):
    """(text, tokens) of a member that is invalid in exactly one way"""
    _, meta, scope, pat = base
    if kind == 'type':
        bad = ('ev', 'zz', None, ('un', 'not', ('bin', '+', A.fld('x'), A.num('1'))))
        p = ('prop', meta, scope, ('pat', 'no', bad, None, None))
        return A.prop_tokens(p)
    if kind == 'sanity-ref':
        bad = ('ev', 'zz', None, ('bin', '>', ('field', A.var('Nowhere'), 'x'), A.num('1')))
        p = ('prop', meta, scope, ('pat', 'no', bad, None, None))
        return A.prop_tokens(p)
    if kind == 'sanity-dup':
        bad = ('disj', (('ev', 'zz', None, None), ('ev', 'yy', None, None), ('ev', 'zz', None, None)))
        p = ('prop', meta, ('scope', 'globally', None, None), ('pat', 'some', bad, None, None))
        return A.prop_tokens(p)
    if kind == 'dup-key':
        key = gen.pick(rng, ('id', 'title', 'description'))
        val = 'p9' if key == 'id' else '"dup"'
        m2 = tuple(m for m in meta if m[0] != key) + ((key, val), (key, val if rng.random() < 0.5 else val[:-1] + ('x"' if key != 'id' else 'x')))
        m2 = list(m2)
        rng.shuffle(m2)
        return A.prop_tokens(('prop', tuple(m2), scope, pat))
    if kind == 'unknown-key':
        toks = A.prop_tokens(base)
        key = gen.pick(rng, ('foo', 'name', 'ID', 'Title', 'desc', 'tit', 'script', 'd', 'i', 'ids', 'descriptions', 'led', 'dt'))
        return ['#', key, ':', gen.pick(rng, ('bar', '"bar"', '"a title"'))] + toks
    if kind == 'trailing-annotation':
        return ['#', 'id', ':', 'dangling']
    if kind == 'syntax':
        toks = A.prop_tokens(base)
        for _ in range(20):
            m = gen.mutate_tokens(rng, toks, rng.choice((1, 2)))
            if grammar.verdict_lexing_aware(m, 'file') == 'reject' and grammar.verdict_lexing_aware(m, 'property') == 'reject':
                return m
        return toks + [')']
    raise ValueError(kind)


def run(ctx):
    rng = ctx.rng
    PS = hplapi.parser('specification')
    PP = hplapi.parser('property')
    n = ctx.share(BUDGET[ctx.tier])
    pool = []
    for i in range(n):
        k = rng.randrange(1, 7)
        members = []
        for j in range(k):
            pg = gen.PropGen(rng, maxdepth=rng.randrange(1, 3), kw_names=0.15 if i % 5 == 0 else 0.0,
                             max_width=rng.choice((1, 2, 3)), pred_prob=rng.choice((0.0, 0.5, 0.9)),
                             alias_prob=rng.choice((0.0, 0.6)), const_preds=0.05)
            p, _, _ = pg.make(n=i * 10 + j)
            if len(pool) < 200:
                pool.append(p)
            members.append(p)
        if k >= 2 and rng.random() < 0.3:
            # the same property stated twice (other annotations, or an equivalent time unit) must stay two properties
            j = rng.randrange(k)
            src = members[rng.randrange(k)]
            other_meta = tuple(m for m in (('id', 'again_%d' % i), ('title', '"stated again"')) if rng.random() < 0.7)
            pat = src[3]
            if pat[4] is not None and pat[4][1] == 's' and rng.random() < 0.5:
                try:
                    ms = float(pat[4][0]) * 1000
                    if ms == int(ms) and ms < 1e15:
                        pat = pat[:4] + ((str(int(ms)), 'ms'),)
                except (ValueError, OverflowError):
                    pass
            members[j] = ('prop', other_meta, src[2], pat)
            ctx.count('files_with_repeated_property')
        fault = None
        if rng.random() < 0.34:
            fault = gen.pick(rng, FAULTS)
        seps = [gen.pick(rng, SEPS) for _ in range(k + 1)]
        feats = {'api:parse_specification', 'shape:fault-' + (fault or 'none')}
        ctx.begin_case(feats)
        sig = f'{k}|' + ','.join(ending(p) for p in members) + '|' + ','.join(
            ''.join(key[0] for key, _ in p[1]) or '-' for p in members) + f'|{fault}'
        nontrivial = k >= 2 and any(p[1] for p in members)

        if fault is None:
            texts = [member_text(p, rng) for p in members]
            text = (seps[0] if rng.random() < 0.3 else '') + ''.join(t + s for t, s in zip(texts, seps[1:]))
            o = hplapi.outcome(PS.parse, text)
            alone = [hplapi.outcome(PP.parse, t) for t in texts]
            ctx.evaluation(sig, nontrivial)
            ctx.count('valid_files')
            if i % 50 == 0:
                ctx.sample({'file': text[:400], 'k': k, 'outcome': hplapi.exc_class(o)})
            if any(a[0] != 'ok' for a in alone):
                ctx.skip('member-rejected-alone:' + ','.join(hplapi.exc_class(a) for a in alone if a[0] != 'ok'))
                continue

            def shrinker(kindname, members=members):
                def fails(ms):
                    return _valid_verdict(PS, PP, ms) == kindname
                ms = shrink.shrink_list(members, fails)
                return ({'file': ' '.join(A.render_prop(m) for m in ms)}, feats)

            v = _judge_valid(o, alone, members)
            for _ in alone:
                ctx.count('members_compared')
            if v is not None:
                ctx.violation(v[0], {'file': text, 'detail': v[1]}, feats, lambda v=v: shrinker(v[0]))
        else:
            if fault == 'empty':
                text = gen.pick(rng, ('', ' ', '\n', '\t\r\n', '\n\n\n'))
                o = hplapi.outcome(PS.parse, text)
                ctx.evaluation(sig, False)
                ctx.count('invalid_files')
                if o[0] == 'ok':
                    ctx.violation('spec-accepted-invalid', {'file': text, 'fault': fault}, feats)
                elif hplapi.exc_class(o) != 'HplSyntaxError':
                    ctx.violation('spec-error-class', {'file': text, 'fault': fault, 'got': hplapi.exc_class(o),
                                                       'expected': 'HplSyntaxError'}, feats)
                continue
            pos = rng.randrange(k)
            if fault == 'trailing-annotation':
                pos = k  # after the last member
            bad_toks = faulty_member(rng, fault, members[min(pos, k - 1)])
            bad_text = A.layout(bad_toks, rng, 'random' if rng.random() < 0.5 else 'space')
            texts = [member_text(p, rng) for p in members]
            if pos < k:
                texts[pos] = bad_text
            else:
                texts.append(bad_text)
                seps.append(gen.pick(rng, SEPS))
            text = ''.join(t + s for t, s in zip(texts, seps[1:]))
            if fault == 'syntax':
                all_toks = []
                for j, p in enumerate(members):
                    all_toks += bad_toks if j == pos else A.prop_tokens(p)
                if grammar.verdict_lexing_aware(all_toks, 'file') != 'reject':
                    ctx.skip('syntax-fault-fuses-with-neighbour')
                    continue
            alone = hplapi.outcome(PP.parse, bad_text)
            o = hplapi.outcome(PS.parse, text)
            ctx.evaluation(sig, nontrivial)
            ctx.count('invalid_files')
            ctx.count('fault:' + fault)
            if i % 50 == 1:
                ctx.sample({'file': text[:400], 'fault': fault, 'alone': hplapi.exc_class(alone),
                            'file_outcome': hplapi.exc_class(o)})
            want = EXPECTED_CLASS[fault]
            if fault == 'syntax' and hplapi.exc_class(alone) in ('TypeError', 'HplSanityError', 'ValueError'):
                # a type/sanity error in the well-formed prefix is raised before the parser reaches the bad token
                want = hplapi.exc_class(alone)
            if hplapi.exc_class(alone) != want:
                ctx.violation('invalid-member-outcome', {'member': bad_text, 'fault': fault, 'expected': want,
                                                         'observed': hplapi.exc_class(alone)}, feats)
                continue
            if o[0] == 'ok':
                ctx.violation('spec-accepted-invalid', {'file': text, 'fault': fault,
                                                        'member_alone': hplapi.exc_class(alone)}, feats)
            elif hplapi.exc_class(o) != hplapi.exc_class(alone):
                ctx.violation('spec-error-class', {'file': text, 'fault': fault, 'got': hplapi.exc_class(o),
                                                   'expected': hplapi.exc_class(alone)}, feats)


def _judge_valid(o, alone, members):
    if o[0] != 'ok':
        return ('spec-rejected', f'{type(o[1]).__name__}: {str(o[1])[:200]}')
    spec = o[1]
    props = getattr(spec, 'properties', None)
    if not isinstance(props, tuple) or len(props) != len(members):
        return ('spec-differs', f'{len(props) if props is not None else None} properties, expected {len(members)}')
    for j, (hp, a, p) in enumerate(zip(props, alone, members)):
        if monitors.snapshot(hp) != monitors.snapshot(a[1]):
            d = []
            compare.compare_property(p, hp, d)
            return ('spec-differs', f'member {j} differs from its stand-alone parse: {d[:4]}')
        d = []
        compare.compare_property(p, hp, d)
        if d:
            kind = 'metadata-leak' if any('metadata' in x for x in d) else 'spec-differs'
            return (kind, f'member {j}: {d[:4]}')
    metas = [id(hp.metadata) for hp in props]
    if len(set(metas)) != len(metas):
        return ('metadata-leak', 'two properties share one metadata dict')
    return None


def _valid_verdict(PS, PP, members):
    texts = [A.render_prop(m) for m in members]
    o = hplapi.outcome(PS.parse, '\n'.join(texts))
    alone = [hplapi.outcome(PP.parse, t) for t in texts]
    if any(a[0] != 'ok' for a in alone):
        return None
    v = _judge_valid(o, alone, members)
    return v[0] if v else None
