"""C04 - well-typed specifications are never rejected."""
from .. import absyn as A
from .. import gen, hplapi, semantic as S, shrink
from ..model import schema as SC, typeset, typing as TY

ID = 'C04'
LEVEL = 'exploration'
TECHNIQUE = ('runtime monitoring: the real parsers and type_check_references are driven on predicates generated '
             'type-directedly from random message schemas; oracle = acceptance, and for every reference node the '
             'schema type of the named field (own path resolution) must be in the stored type set')
RULE = ('Random message schemas (booleans, numbers, strings, fixed/variable arrays, nested messages, arrays of '
        'messages, constants) x predicates generated well-typed against them (references to the current message, to '
        'aliased earlier events and to quantified variables; sibling quantifiers re-using a variable name at different '
        'element types; repeated references; equality between two fields; arithmetic inside indices; constants), at the '
        'predicate/condition entry points and inside generated properties whose enclosing property is then checked '
        'against the schemas. Non-trivial = >= 2 references and >= 1 operator; distinct = shape x schema shape.')
ASSUMPTIONS = ['generation is correct by construction against my typing tables (Appendix A.2/A.3); msg_types carries '
               'topics and aliases as keys, as the code expects']
FLOORS = {
    'quick': {'evaluations': 8000, 'distinct_nontrivial': 3000, 'predicates_judged': 6000, 'properties_judged': 2000,
              'reference_nodes_resolved': 40000, 'schema_checks_passed': 2000, 'sibling_reuse_cases': 100},
    'thorough': {'evaluations': 200000, 'distinct_nontrivial': 50000, 'predicates_judged': 150000,
                 'properties_judged': 50000, 'reference_nodes_resolved': 1000000, 'schema_checks_passed': 50000,
                 'sibling_reuse_cases': 2500},
}
BUDGET = {'quick': {'preds': 20000, 'props': 6000}, 'thorough': {'preds': 1500000, 'props': 400000}}
TIMEOUT = {'quick': 900, 'thorough': 7200}


def sibling_reuse(e):
    """does e contain two quantifiers binding the same name where neither encloses the other?"""
    names = {}

    def rec(x, path):
        if x[0] == 'quant':
            names.setdefault(x[2], []).append(path)
        for i, k in enumerate(A.children(x)):
            rec(k, path + (i,))

    rec(e, ())
    for paths in names.values():
        for i in range(len(paths)):
            for j in range(i + 1, len(paths)):
                a, b = paths[i], paths[j]
                if a != b[:len(a)] and b != a[:len(b)]:
                    return True
    return False


def run(ctx):
    from hpl.types import DataType

    rng = ctx.rng
    B = BUDGET[ctx.tier]
    br = typeset.Bridge(DataType)
    PC, PPred, PP = hplapi.parser('condition'), hplapi.parser('predicate'), hplapi.parser('property')

    def check_refs(cond, this, aliases, text, feats):
        nodes = SC.reference_nodes(cond)
        ctx.count('reference_nodes_resolved', len(nodes))
        faults = SC.check_expression(cond, this, aliases, br)
        if faults:
            f = faults[0]
            ctx.violation('inferred-type-excludes-schema-type', {'input': text[:300], 'fault': str(f)}, feats)
            return False
        return True

    for n in range(ctx.share(B['preds'])):
        sch = gen.random_schema(rng, depth=rng.choice((1, 2)), kw_names=0.1 if n % 7 == 0 else 0.0)
        names = list(gen.ALIASES)
        rng.shuffle(names)
        aliases = {names[i]: gen.random_schema(rng, depth=1) for i in range(rng.choice((0, 0, 1, 2)))}
        reuse = 0.5 if n % 10 == 0 else 0.0
        tg = gen.Typed(rng, this=sch, aliases=aliases, maxdepth=rng.randrange(1, 6), sibling_reuse=reuse,
                       small_literals=rng.random() < 0.7)
        e = tg.predicate(need_this=False)
        if n % 10 == 0:
            # sibling quantifiers that re-use one variable name, usually at different element types
            q1, q2 = tg.quantifier(3), tg.quantifier(3)
            if q1 is not None and q2 is not None and q1[2] not in {x[2] for x in A.walk(q2) if x[0] == 'quant'}:
                v1, v2 = q1[2], q2[2]
                q2 = ('quant', q2[1], v1, q2[3], A.replace_var(q2[4], v2, A.var(v1)))
                e = ('bin', gen.pick(rng, ('and', 'or', 'implies')), q1, q2)
                if rng.random() < 0.4:
                    e = ('bin', 'and', e, tg.bool(1))
        if not A.renderable(e) or e[0] == 'lit':
            continue
        level = 'predicate' if rng.random() < 0.5 else 'condition'
        toks = A.expr_tokens(e)
        if level == 'predicate':
            toks = ['{'] + toks + ['}']
        text = A.layout(toks)
        feats = A.features(e) | {'api:parse_' + level}
        sib = sibling_reuse(e)
        if sib:
            feats.add('shape:sibling-quantifiers-share-a-name')
            ctx.count('sibling_reuse_cases')
        ctx.begin_case(feats)
        o = hplapi.outcome((PPred if level == 'predicate' else PC).parse, text)
        nrefs = sum(1 for x in A.walk(e) if x[0] in ('field', 'var') and x != A.THIS)
        ctx.evaluation(A.shape(e) + '|' + gen.schema_shape(sch)[:60], nrefs >= 2 and A.size(e) > 3)
        ctx.count('predicates_judged')
        if n % 400 == 0:
            ctx.sample({'schema': gen.schema_shape(sch)[:120], 'predicate': text[:240], 'outcome': hplapi.exc_class(o)})
        if o[0] != 'ok':
            def shrinker(e=e, sch=sch, aliases=aliases, level=level, cls=hplapi.exc_class(o)):
                def fails(c):
                    if not A.renderable(c):
                        return False
                    tk = A.expr_tokens(c)
                    if level == 'predicate':
                        tk = ['{'] + tk + ['}']
                    o2 = hplapi.outcome((PPred if level == 'predicate' else PC).parse, A.layout(tk))
                    return (o2[0] != 'ok' and hplapi.exc_class(o2) == cls
                            and TY.is_well_typed(c, sch, aliases, ('bool',)))
                m = shrink.shrink_expr(e, fails)
                f2 = A.features(m) | {'api:parse_' + level}
                if sibling_reuse(m):
                    f2.add('shape:sibling-quantifiers-share-a-name')
                return ({'predicate': A.render_expr(m), 'error': cls}, f2)
            ctx.violation('well-typed-rejected', {'predicate': text, 'schema': gen.schema_shape(sch)[:200],
                                                  'error': hplapi.exc_class(o), 'message': str(o[1])[:200]},
                          feats, shrinker)
            continue
        h = o[1]
        if getattr(h, 'is_vacuous', False):
            continue
        if not check_refs(h.condition, sch, aliases, text, feats):
            continue
        # third clause on the predicate itself: the schema check accepts what the model resolves
        this_tok = hplapi.type_token(sch, 'T', rng)
        var_toks = {a: hplapi.type_token(st, 'A_' + a, rng) for a, st in aliases.items()}
        oc = hplapi.outcome(lambda: h.type_check_references(this_tok, variables=var_toks))
        ctx.count('predicate_schema_checks')
        if oc[0] != 'ok':
            ctx.violation('schema-check-rejects-valid', {'predicate': text, 'schema': gen.schema_shape(sch)[:200],
                                                         'error': hplapi.exc_class(oc), 'message': str(oc[1])[:240]},
                          feats | {'exc:' + hplapi.exc_class(oc), 'api:type_check_references'})
        elif oc[1] is False:  # "succeeds" = does not raise; only an explicit False would signal failure by value
            ctx.violation('schema-check-returns-value', {'predicate': text, 'result': repr(oc[1])[:100]}, feats)

    for n in range(ctx.share(B['props'])):
        pg = gen.PropGen(rng, maxdepth=rng.randrange(1, 4), max_width=rng.choice((1, 2, 3)), kw_names=0.05)
        p, schemas, bound = pg.make(n=n)
        text = A.render_prop(p)
        feats = {'api:parse_property', 'api:type_check_references'}
        ctx.begin_case(feats)
        o = hplapi.outcome(PP.parse, text)
        ctx.evaluation('prop:' + A.prop_shape(p), True)
        ctx.count('properties_judged')
        if o[0] != 'ok':
            ctx.violation('well-typed-rejected', {'property': text, 'error': hplapi.exc_class(o),
                                                  'message': str(o[1])[:200]}, feats)
            continue
        hp = o[1]
        all_aliases = {}
        for m in bound.values():
            all_aliases.update(m)
        # own aliases too (an event's own alias is rewritten to the message itself, so harmless)
        for ev in A.prop_positions(p).values():
            for se in A.simple_events(ev):
                if se[2] is not None:
                    all_aliases.setdefault(se[2], schemas[se[1]])
        ok = True
        for name, hev in (('activator', hp.scope.activator), ('terminator', hp.scope.terminator),
                          ('trigger', hp.pattern.trigger), ('behaviour', hp.pattern.behaviour)):
            if hev is None:
                continue
            for se in hev.simple_events():
                pred = se.predicate
                if getattr(pred, 'is_vacuous', False):
                    continue
                ok = check_refs(pred.condition, schemas[str(se.name)], all_aliases, text, feats) and ok
        if not ok:
            continue
        msg_types = {}
        for topic, st in schemas.items():
            msg_types[topic] = hplapi.type_token(st, 'T', rng)
        for alias, st in all_aliases.items():
            msg_types[alias] = hplapi.type_token(st, 'A', rng)
        oc = hplapi.outcome(hp.type_check_references, msg_types)
        if oc[0] != 'ok':
            ctx.violation('schema-check-rejects-valid', {'property': text, 'error': hplapi.exc_class(oc),
                                                         'message': str(oc[1])[:240]}, feats | {'exc:' + hplapi.exc_class(oc)})
        elif oc[1] is False:
            ctx.violation('schema-check-returns-value', {'property': text, 'result': repr(oc[1])[:100]}, feats)
        else:
            ctx.count('schema_checks_passed')
