"""C11 - canonical_form is an exact, order-stable decomposition."""
import itertools

from .. import absyn as A
from .. import compare, gen, hplapi, monitors, shrink

ID = 'C11'
LEVEL = 'exploration'
TECHNIQUE = ('runtime monitoring: the real canonical_form() is driven on an exhaustive grid of scope x pattern x '
             'disjunction widths; oracle = expected product of alternatives computed from the generating abstract '
             'tree, compared position by position with snapshot equality; idempotence and identity checked by object '
             'identity')
RULE = ('Exhaustive grid: scope kind (4) x pattern kind (5) x disjunction width 1-4 in each present event position, each '
        'cell decorated with random scoping-valid aliases, typed predicates, time bounds and annotations (once in '
        'quick, 25 times in thorough), plus random widths 5-6. Expected result: the input itself when neither the '
        'activator nor the split event is a disjunction; otherwise one property per (activator alternative x split '
        'alternative), activator-major in source order, identical to the input everywhere else. Non-trivial = some '
        'width > 1; distinct = (scope, pattern, widths, decoration shape).')
RULE_ADDED = ' Since the seeding rounds: properties built through the constructors (left/balanced/random/derived disjunction trees, lower time bounds), twins, one disjunction in two positions, constant predicates.'
ASSUMPTIONS = ['split positions per DESIGN.md Appendix A.5', 'properties in which a later event references an alias '
               'bound by only some alternatives of a split disjunction have no valid decomposition (known finding of '
               'C14) and are kept in a separate stratum']
EXHAUSTIVE = {'quick': True, 'thorough': True}
FLOORS = {
    'quick': {'evaluations': 1400, 'distinct_nontrivial': 800, 'grid_cells': 1400, 'outputs_compared': 5000,
              'identity_cases': 100, 'idempotence_checked': 5000},
    'thorough': {'evaluations': 30000, 'distinct_nontrivial': 1400, 'grid_cells': 1400, 'outputs_compared': 150000,
                 'identity_cases': 2500, 'idempotence_checked': 150000},
}
BUDGET = {'quick': {'reps': 2, 'random': 800}, 'thorough': {'reps': 100, 'random': 40000}}
TIMEOUT = {'quick': 900, 'thorough': 7200}
SPLIT = {'no': 'behaviour', 'requires': 'behaviour', 'forbids': 'behaviour', 'causes': 'trigger', 'some': None}


def expected_outputs(p):
    """list of abstract properties, or [p] marker 'identity'"""
    pos = A.prop_positions(p)
    sk, pk = p[2][1], p[3][1]
    acts = A.simple_events(pos.get('activator')) if 'activator' in pos else (None,)
    sp = SPLIT[pk]
    splits = A.simple_events(pos[sp]) if sp else (None,)
    if len(acts) == 1 and len(splits) == 1:
        return None
    out = []
    for a in acts:
        for s in splits:
            events = dict(pos)
            if a is not None:
                events['activator'] = a
            if s is not None:
                events[sp] = s
            out.append(gen.assemble(sk, pk, events, p[3][4], p[1]))
    return out


def judge(PP, p, text=None, nesting=None):
    """(kind or None, detail, n_outputs, hp); nesting != None builds the property through the public
    constructors with that shape of disjunction tree (left, balanced, random) instead of parsing text"""
    from hpl.rewrite import canonical_form

    if nesting is None:
        text = text or A.render_prop(p)
        o = hplapi.outcome(PP.parse, text)
    else:
        hplapi.NESTING[0] = nesting
        hplapi.MIN_TIME[0] = (None, 0.125, 0.0, 2.5)[len(text or A.render_prop(p)) % 4]
        try:
            o = hplapi.outcome(hplapi.build_property, p)
        finally:
            hplapi.NESTING[0] = 'right'
            hplapi.MIN_TIME[0] = None
    if o[0] != 'ok':
        return ('rejected', hplapi.exc_class(o), 0, None)
    hp = o[1]
    snap_in = monitors.snapshot(hp)
    oc = hplapi.outcome(canonical_form, hp)
    if oc[0] != 'ok':
        return ('canonical-raises', {'error': hplapi.exc_class(oc), 'message': str(oc[1])[:200]}, 0, hp)
    res = oc[1]
    exp = expected_outputs(p)
    compare.EXPECTED_MIN_TIME[0] = hp.pattern.min_time if nesting is not None else None
    if not isinstance(res, list):
        return ('not-a-list', {'result': type(res).__name__}, 0, hp)
    if exp is None:
        if len(res) != 1 or res[0] is not hp:
            return ('identity-case', {'length': len(res), 'same_object': bool(res) and res[0] is hp}, len(res), hp)
        return (None, {'identity': True}, 1, hp)
    if len(res) != len(exp):
        return ('wrong-length', {'expected': len(exp), 'observed': len(res)}, len(res), hp)
    for i, (e, r) in enumerate(zip(exp, res)):
        if type(r).__name__ != 'HplProperty':
            return ('wrong-element', {'index': i, 'type': type(r).__name__}, len(res), hp)
        d = []
        compare.compare_property(e, r, d, f'output[{i}]')
        if d:
            return ('wrong-decomposition', {'index': i, 'diffs': d[:5], 'output': str(r)[:300]}, len(res), hp)
        # everything outside the two split positions must be the *same content* as in the input
        if monitors.snapshot(r.scope.terminator) != monitors.snapshot(hp.scope.terminator):
            return ('wrong-decomposition', {'index': i, 'diffs': ['terminator differs from the input']}, len(res), hp)
        if r.metadata != hp.metadata:
            return ('metadata-lost', {'index': i, 'input': dict(hp.metadata), 'output': dict(r.metadata)}, len(res), hp)
        if (r.pattern.min_time, r.pattern.max_time) != (hp.pattern.min_time, hp.pattern.max_time):
            return ('wrong-decomposition', {'index': i, 'diffs': ['time bounds differ']}, len(res), hp)
        sc = hplapi.outcome(r.sanity_check)
        if sc[0] != 'ok':
            return ('invalid-output', {'index': i, 'error': hplapi.exc_class(sc)}, len(res), hp)
        again = hplapi.outcome(canonical_form, r)
        if again[0] != 'ok' or len(again[1]) != 1 or again[1][0] is not r:
            return ('not-idempotent', {'index': i, 'again': hplapi.exc_class(again) if again[0] != 'ok' else len(again[1])},
                    len(res), hp)
    compare.EXPECTED_MIN_TIME[0] = None
    if monitors.snapshot(hp) != snap_in:
        return ('input-mutated', {}, len(res), hp)
    return (None, {'outputs': len(res)}, len(res), hp)


def run(ctx):
    rng = ctx.rng
    B = BUDGET[ctx.tier]
    PP = hplapi.parser('property')

    def handle(p, sig, cell, nesting=None):
        feats = {'api:canonical_form', 'shape:' + p[2][1], 'shape:' + p[3][1]}
        if A.partial_alias_dependency(p):
            feats.add('shape:alias-bound-in-some-alternatives')
        if nesting is not None:
            feats.add('shape:api-built')
            ctx.count('api_built_cases')
        ctx.begin_case(feats)
        kind, detail, nout, hp = judge(PP, p, nesting=nesting)
        if kind == 'rejected':
            ctx.skip('rejected:' + str(detail))
            return
        widths = {k: len(A.simple_events(v)) for k, v in A.prop_positions(p).items()}
        ctx.evaluation(sig, any(w > 1 for w in widths.values()))
        if cell:
            ctx.count('grid_cells')
        ctx.count('outputs_compared', nout)
        ctx.count('idempotence_checked', nout if detail.get('outputs') else 0)
        if detail.get('identity'):
            ctx.count('identity_cases')
        if ctx.evaluations % 250 == 1:
            ctx.sample({'property': A.render_prop(p)[:300], 'widths': widths, 'outputs': nout, 'verdict': kind or 'ok'})
        if kind is None:
            return
        w = {'property': A.render_prop(p), 'widths': widths}
        w.update(detail if isinstance(detail, dict) else {'detail': detail})
        if isinstance(detail, dict) and 'error' in detail:
            feats = feats | {'exc:' + detail['error']}

        def shrinker():
            nst = nesting if isinstance(nesting, (str, type(None))) else 'left'
            m = shrink.shrink_prop(p, lambda c: judge(PP, c, nesting=nst)[0] == kind)
            k2, d2, _, _ = judge(PP, m, nesting=nst)
            f2 = {'api:canonical_form'}
            if A.partial_alias_dependency(m):
                f2.add('shape:alias-bound-in-some-alternatives')
            if isinstance(d2, dict) and 'error' in d2:
                f2.add('exc:' + d2['error'])
            w2 = {'property': A.render_prop(m)}
            w2.update(d2 if isinstance(d2, dict) else {})
            return (w2, f2)

        ctx.violation(kind, w, feats, shrinker)

    def handle_twin(p, sig):
        """history: the same property body under other annotations, decomposed right after the first one"""
        twin = ('prop', (('id', 'twin_%d' % (ctx.evaluations % 97)), ('title', '"another"')), p[2], p[3])
        handle(twin, 'twin|' + sig, False)
        ctx.count('twins_judged')

    idx = 0
    for sk in gen.SCOPES:
        for pk in gen.PATTERNS:
            positions = [name for name, _ in gen.binding_order(sk, pk)]
            for ws in itertools.product((1, 2, 3, 4), repeat=len(positions)):
                idx += 1
                if not ctx.mine(idx):
                    continue
                for rep in range(B['reps']):
                    pg = gen.PropGen(rng, maxdepth=rng.randrange(1, 3), max_width=4, expose_disj_aliases=0.1 if rep % 5 == 4 else 0.0)
                    p, _, _ = pg.make(scope_kind=sk, pat_kind=pk, widths=dict(zip(positions, ws)), n=idx)
                    handle(p, f'{sk}|{pk}|{ws}|' + A.prop_shape(p), rep == 0)
                    if idx % 3 == 0:
                        handle_twin(p, f'{sk}|{pk}|{ws}')
                    if max(ws) >= 3:
                        # the same property built through the constructors with another disjunction tree shape
                        nst = ('left', 'balanced', rng)[idx % 3]
                        handle(p, f'api|{sk}|{pk}|{ws}|{nst if isinstance(nst, str) else "random"}', False, nesting=nst)
                    if max(ws) >= 2 and rep % 2 == 0:
                        # ... and with every disjunction node obtained as a modified copy of another disjunction
                        handle(p, f'api|{sk}|{pk}|{ws}|derived', False, nesting='derived')
    for n in range(ctx.share(B['random'])):
        pg = gen.PropGen(rng, maxdepth=rng.randrange(1, 4), max_width=6, expose_disj_aliases=0.3, const_preds=0.05)
        sk, pk = gen.pick(rng, gen.SCOPES), gen.pick(rng, gen.PATTERNS)
        positions = [name for name, _ in gen.binding_order(sk, pk)]
        p, _, _ = pg.make(scope_kind=sk, pat_kind=pk, widths={q: rng.choice((1, 2, 5, 6)) for q in positions}, n=n)
        handle(p, 'rnd|' + A.prop_shape(p), False)
        if n % 4 == 0 and len(positions) >= 2:
            # the same (alias-free) disjunction in two positions of one property: channels may repeat across positions
            pos = A.prop_positions(p)
            src = gen.pick(rng, [q for q in positions if pos[q][0] == 'disj'] or positions)
            dst = gen.pick(rng, [q for q in positions if q != src])

            def bare(ev):
                if ev[0] == 'disj':
                    return ('disj', tuple(bare(k) for k in ev[1]))
                pred = ev[3] if (ev[3] is not None and not A.all_vars(ev[3])) else None
                return ('ev', ev[1], None, pred)
            events = {q: bare(ev) for q, ev in pos.items()}
            events[dst] = events[src]
            p2 = gen.assemble(sk, pk, events, p[3][4], p[1])
            handle(p2, f'same-event-twice|{sk}|{pk}|{src}->{dst}|{len(A.simple_events(events[src]))}', False)
