"""C02 - a property is accepted iff every alias reference is bound earlier, once."""
import itertools

from .. import absyn as A
from .. import gen, hplapi, shrink
from ..model import scoping as SCO

ID = 'C02'
LEVEL = 'exploration'
TECHNIQUE = ('runtime monitoring: the real parser, constructors and but() are driven on an enumerated grid of binding '
             'combinations; oracle = independent scoping table (binding order, alias visibility, duplicates, '
             'quantifier hygiene) predicting accept vs HplSanityError')
RULE = ('Grid: scope kind (4) x pattern kind (5) x alias assignment {none, A, B} per simple event x one reference '
        '{none, @A.f, @B.f, @C.f} per event placed at top level, in a quantifier body or in a quantifier domain '
        '(exhaustive for all-simple events in thorough, sampled in quick), plus sampled cases with 2-4-way '
        'disjunctions, a third alias, duplicate channels and the quantifier-hygiene cases (unused variable, variable '
        'in its own domain, nested re-binding, legal sibling re-use). Every case is realised three ways: text through '
        'the parser, construction through the public API, and but() from a valid neighbour. Non-trivial = >= 1 alias '
        'and >= 1 reference; distinct = (scope, pattern, alias map, reference map, placement).')
RULE_ADDED = ' Since the seeding rounds: references also inside indices, index chains, indexed domains, range bounds, set elements and function arguments; realisation but-deep (predicates put in through event.but, copies travelling up through but()); own variable in its domain behind another variable; quantified variables with names of several characters.'
ASSUMPTIONS = ['not judged: one alias on two alternatives of one disjunction, an alias bound by the terminator that a '
               'pattern event also binds, a name used both as alias and bound variable, a nested same-name quantifier '
               'inside a quantifier domain']
EXHAUSTIVE = {'thorough': True}
FLOORS = {
    'quick': {'evaluations': 20000, 'distinct_nontrivial': 4000, 'cases_judged': 7000, 'expected_accept': 1500,
              'expected_sanity': 3000, 'realisation:text': 7000, 'realisation:api': 7000, 'realisation:but': 5000,
              'hygiene_cases': 300, 'disjunction_cases': 1500},
    'thorough': {'evaluations': 400000, 'distinct_nontrivial': 80000, 'cases_judged': 140000,
                 'expected_accept': 30000, 'expected_sanity': 60000, 'realisation:text': 140000,
                 'realisation:api': 140000, 'realisation:but': 100000, 'hygiene_cases': 5000,
                 'disjunction_cases': 20000},
}
BUDGET = {'quick': {'grid_sample': 15000, 'random': 8000, 'hygiene': 60},
          'thorough': {'grid_sample': None, 'random': 600000, 'hygiene': 1500}}
TIMEOUT = {'quick': 900, 'thorough': 7200}
TOPICS = ('a', 'b', 'c', 'd', 'e', 'g', 'h', 'k')


def ref_pred(ref, placement, own_field='x'):
    """a well-typed predicate that mentions @ref.f at the given placement (and the own message)"""
    own = ('bin', '>=', A.fld(own_field), A.num('0'))
    if ref is None:
        return own if placement != 'none' else None
    r = ('field', A.var(ref), 'f')
    if placement == 'top':
        return ('bin', '>', A.fld(own_field), r)
    if placement == 'quant-body':
        return ('quant', 'forall', 'i', A.fld('xs'), ('bin', '>', A.var('i'), r))
    if placement == 'quant-domain':
        return ('quant', 'exists', 'i', ('set', (r, A.num('1'))), ('bin', '>', A.var('i'), A.fld(own_field)))
    if placement == 'nested':
        return ('bin', 'and', own, A.not_(('bin', '=', ('bin', '+', r, A.num('1')), A.num('2'))))
    if placement == 'index':  # the reference occurs only inside an array index
        return ('bin', '>', ('index', A.fld('xs'), r), A.num('0'))
    if placement == 'index-in-chain':
        return ('bin', '>', ('field', ('index', A.fld('ms'), r), 'v'), A.fld(own_field))
    if placement == 'index-in-domain':
        return ('quant', 'exists', 'i', ('index', A.fld('rows'), r), ('bin', '>', A.var('i'), A.num('0')))
    if placement == 'range-bound':
        return ('bin', 'in', A.fld(own_field), ('range', A.num('0'), r, False, True))
    if placement == 'set-element':
        return ('bin', 'in', A.fld(own_field), ('set', (A.num('1'), r)))
    if placement == 'function-argument':
        return ('bin', '>', A.fld(own_field), ('call', 'abs', (r,)))
    raise ValueError(placement)


PLACEMENTS = ('top', 'quant-body', 'quant-domain', 'nested', 'index', 'index-in-chain', 'index-in-domain',
              'range-bound', 'set-element', 'function-argument')

HYGIENE = (
    ('unused-variable', ('quant', 'forall', 'i', A.fld('xs'), ('bin', '>', A.fld('x'), A.num('0')))),
    ('variable-in-own-domain', ('quant', 'forall', 'i', ('set', (A.var('i'), A.num('1'))), ('bin', '>', A.var('i'), A.num('0')))),
    ('variable-in-own-domain-index', ('quant', 'exists', 'i', ('index', A.fld('ms'), A.var('i')), ('bin', '>', A.var('i'), A.num('0')))),
    ('variable-in-own-domain-range', ('quant', 'exists', 'i', ('range', A.num('0'), A.var('i'), False, False), ('bin', '>', A.var('i'), A.num('0')))),
    # ... with another variable standing before it in the domain (set, range, index sum, deeper)
    ('variable-in-own-domain-after-outer-variable', ('quant', 'forall', 'j', A.fld('xs'), ('quant', 'exists', 'i', ('set', (A.var('j'), A.var('i'))),
                                                                         ('bin', '>', A.var('i'), A.num('0'))))),
    ('variable-in-own-range-after-outer-variable', ('quant', 'forall', 'j', A.fld('xs'), ('quant', 'exists', 'i', ('range', A.var('j'), A.var('i'), False, False),
                                                                        ('bin', '>', A.var('i'), A.num('0'))))),
    ('variable-in-own-index-after-outer-variable', ('quant', 'forall', 'j', A.fld('xs'), ('quant', 'exists', 'i', ('index', A.fld('ms'), ('bin', '+', A.var('j'), A.var('i'))),
                                                                        ('bin', '>', A.var('i'), A.num('0'))))),
    ('variable-last-of-three-in-own-domain', ('quant', 'forall', 'j', A.fld('xs'), ('quant', 'exists', 'i', ('set', (A.var('j'), A.fld('x'), ('bin', '+', A.var('j'), A.var('i')))),
                                                                  ('bin', '>', A.var('i'), A.num('0'))))),
    ('outer-variable-twice-in-inner-domain-legal', ('quant', 'forall', 'j', A.fld('xs'), ('quant', 'exists', 'i', ('set', (A.var('j'), ('bin', '+', A.var('j'), A.num('1')))),
                                                                        ('bin', '>', A.var('i'), A.num('0'))))),
    ('nested-rebinding', ('quant', 'forall', 'i', A.fld('xs'), ('bin', 'and', ('bin', '>', A.var('i'), A.num('0')),
                          ('quant', 'exists', 'i', A.fld('ys'), ('bin', '<', A.var('i'), A.num('0')))))),
    ('nested-rebinding-deep', ('quant', 'forall', 'i', A.fld('xs'), ('quant', 'forall', 'j', A.fld('ys'),
                               ('quant', 'exists', 'i', A.fld('zs'), ('bin', '<', A.var('i'), A.var('j')))))),
    ('sibling-reuse-legal', ('bin', 'and', ('quant', 'forall', 'i', A.fld('xs'), ('bin', '>', A.var('i'), A.num('0'))),
                             ('quant', 'exists', 'i', A.fld('ys'), ('bin', '<', A.var('i'), A.num('0'))))),
    ('nested-distinct-legal', ('quant', 'forall', 'i', A.fld('xs'), ('quant', 'exists', 'j', A.fld('ys'),
                               ('bin', '<', A.var('i'), A.var('j'))))),
    ('used-only-in-nested-domain', ('quant', 'forall', 'i', A.fld('xs'), ('quant', 'exists', 'j', ('set', (A.var('i'), A.num('1'))),
                                    ('bin', '<', A.var('j'), A.num('3'))))),
    ('unused-inner', ('quant', 'forall', 'i', A.fld('xs'), ('quant', 'exists', 'j', A.fld('ys'),
                      ('bin', '<', A.var('i'), A.num('3'))))),
    # a free @i next to a quantifier that binds i is a reference to an undefined event (both orders, also in a
    # sibling quantifier's domain): the binding must not leak out of the quantifier
    ('free-use-after-sibling-binder', ('bin', 'and', ('quant', 'forall', 'i', A.fld('xs'), ('bin', '>', A.var('i'), A.num('0'))),
                                       ('bin', '>', ('field', A.var('i'), 'f'), A.num('0')))),
    ('free-use-before-sibling-binder', ('bin', 'and', ('bin', '>', ('field', A.var('i'), 'f'), A.num('0')),
                                        ('quant', 'forall', 'i', A.fld('xs'), ('bin', '>', A.var('i'), A.num('0'))))),
    ('free-use-in-sibling-domain', ('bin', 'or', ('quant', 'exists', 'i', A.fld('xs'), ('bin', '>', A.var('i'), A.num('0'))),
                                    ('quant', 'exists', 'j', ('field', A.var('i'), 'arr'), ('bin', '>', A.var('j'), A.num('0'))))),
    ('free-use-deep-after-binder', ('bin', 'implies', A.not_(('quant', 'exists', 'k', A.fld('xs'), ('bin', '=', A.var('k'), A.num('1')))),
                                    ('bin', 'in', ('field', A.var('k'), 'g'), ('set', (A.num('1'), A.num('2')))))),
)


def make_case(sk, pk, spec):
    """spec: {position: [(topic, alias, ref, placement), ...]}"""
    events = {}
    for pos, alts in spec.items():
        evs = tuple(('ev', t, al, ref_pred(ref, pl)) for (t, al, ref, pl) in alts)
        events[pos] = evs[0] if len(evs) == 1 else ('disj', evs)
    return gen.assemble(sk, pk, events)


def run(ctx):
    from hpl.errors import HplSanityError

    rng = ctx.rng
    B = BUDGET[ctx.tier]
    PP = hplapi.parser('property')

    def expected_class(v):
        return 'ok' if v == SCO.ACCEPT else 'HplSanityError'

    def realise_text(p):
        return hplapi.outcome(PP.parse, A.render_prop(p))

    def realise_api(p):
        return hplapi.outcome(hplapi.build_property, p)

    def realise_but(p):
        """from a valid neighbour: same scope with the trivial pattern, then but(pattern=...); or the trivial
        scope with the same pattern, then but(scope=...)"""
        _, meta, scope, pat = p
        trivial_pat = ('pat', 'no', ('ev', 'zz9', None, None), None, None)
        trivial_scope = ('scope', 'globally', None, None)
        outs = []
        n1 = ('prop', (), scope, trivial_pat)
        if SCO.verdict(n1)[0] == SCO.ACCEPT:
            o = hplapi.outcome(hplapi.build_property, n1)
            if o[0] == 'ok':
                pt = hplapi.outcome(hplapi.build_pattern, pat)
                if pt[0] == 'ok':
                    outs.append(hplapi.outcome(lambda: o[1].but(pattern=pt[1])))
        n2 = ('prop', (), trivial_scope, pat)
        if scope[1] != 'globally' and SCO.verdict(n2)[0] == SCO.ACCEPT:
            o = hplapi.outcome(hplapi.build_property, n2)
            if o[0] == 'ok':
                sc = hplapi.outcome(hplapi.build_scope, scope)
                if sc[0] == 'ok':
                    outs.append(hplapi.outcome(lambda: o[1].but(scope=sc[1])))
        return outs

    def realise_but_deep(p):
        """from a valid, already checked neighbour with the same events but reference-free predicates: every simple
        event gets its predicate through event.but(predicate=...), the copies travel up through but() of the
        scope, the pattern and the property (disjunctions are built afresh)"""
        pos = A.prop_positions(p)

        def strip(ev):
            if ev[0] == 'disj':
                return ('disj', tuple(strip(k) for k in ev[1]))
            return ('ev', ev[1], ev[2], ref_pred(None, 'top'))
        n = gen.assemble(p[2][1], p[3][1], {q: strip(ev) for q, ev in pos.items()}, p[3][4])
        if SCO.verdict(n)[0] != SCO.ACCEPT:
            return []
        o = hplapi.outcome(hplapi.build_property, n)
        if o[0] != 'ok':
            return []
        hp = o[1]

        def derive():
            scope, pattern = hp.scope, hp.pattern
            for q, ev in pos.items():
                if ev[0] == 'disj':
                    new = hplapi.build_event(ev)
                else:
                    old = {'activator': scope.activator, 'terminator': scope.terminator, 'trigger': pattern.trigger,
                           'behaviour': pattern.behaviour}[q]
                    new = old.but(predicate=hplapi.build_predicate(ev[3]))
                if q in ('activator', 'terminator'):
                    scope = scope.but(**{q: new})
                else:
                    pattern = pattern.but(**{q: new})
            return hp.but(scope=scope, pattern=pattern)
        return [hplapi.outcome(derive)]

    LONG = {'i': 'idx', 'j': 'elem', 'k': 'k1'}

    def long_names(p):
        """the same property with its quantified variables spelled with several characters (consistently, so bound
        and free occurrences stay what they were)"""
        def f(x):
            if x[0] == 'var' and x[1] in LONG:
                return ('var', LONG[x[1]])
            if x[0] == 'quant' and x[2] in LONG:
                return x[:2] + (LONG[x[2]],) + x[3:]
            return x

        def ev(e):
            if e is None:
                return None
            if e[0] == 'disj':
                return ('disj', tuple(ev(k) for k in e[1]))
            return ('ev', e[1], e[2], A.subst(e[3], f) if e[3] is not None else None)
        _, meta, scope, pat = p
        return ('prop', meta, scope[:2] + tuple(ev(e) for e in scope[2:]),
                pat[:2] + (ev(pat[2]), ev(pat[3])) + pat[4:])

    def judge(p, sig, nontrivial, tags=()):
        if rng.random() < 0.35:
            q = long_names(p)
            if q != p:
                p = q
                tags = tuple(tags) + ('shape:long-variable-names',)
                ctx.count('long_variable_name_cases')
        v, reason = SCO.verdict(p)
        feats = {'api:property', 'shape:' + p[2][1], 'shape:' + p[3][1]} | set(tags)
        ctx.begin_case(feats)
        if v == SCO.AMBIGUOUS:
            ctx.skip('ambiguous:' + reason[:40])
            return
        exp = expected_class(v)
        ctx.count('cases_judged')
        ctx.count('expected_accept' if v == SCO.ACCEPT else 'expected_sanity')
        results = [('text', realise_text(p)), ('api', realise_api(p))]
        for o in realise_but(p):
            results.append(('but', o))
        for o in realise_but_deep(p):
            results.append(('but-deep', o))
        for how, o in results:
            got = hplapi.exc_class(o)
            ctx.evaluation(f'{sig}|{how}', nontrivial)
            ctx.count('realisation:' + how)
            if got == exp:
                continue
            kind = {('ok', 'HplSanityError'): 'valid-property-rejected'}.get((exp, got)) or (
                'invalid-property-accepted' if got == 'ok' else 'wrong-error-class')

            def shrinker(kind=kind, how=how):
                def fails(c):
                    v2 = SCO.verdict(c)[0]
                    if v2 == SCO.AMBIGUOUS:
                        return False
                    outs = {'text': [realise_text(c)], 'api': [realise_api(c)], 'but': realise_but(c)}[how]
                    want = expected_class(v2)
                    if kind == 'invalid-property-accepted':
                        return want == 'HplSanityError' and any(hplapi.exc_class(x) == 'ok' for x in outs)
                    if kind == 'valid-property-rejected':
                        return want == 'ok' and any(hplapi.exc_class(x) == 'HplSanityError' for x in outs)
                    return any(hplapi.exc_class(x) not in (want, 'ok', 'HplSanityError') for x in outs)
                m = shrink.shrink_prop(p, fails)
                return ({'property': A.render_prop(m), 'realisation': how, 'expected': expected_class(SCO.verdict(m)[0]),
                         'reason': SCO.verdict(m)[1]}, feats)

            ctx.violation(kind, {'property': A.render_prop(p), 'realisation': how, 'expected': exp, 'observed': got,
                                 'oracle_reason': reason, 'message': str(o[1])[:160] if o[0] != 'ok' else None},
                          feats | {'shape:via-' + how}, shrinker)
        if ctx.counters['cases_judged'] % 300 == 1:
            ctx.sample({'property': A.render_prop(p), 'oracle': v, 'reason': reason,
                        'outcomes': {how: hplapi.exc_class(o) for how, o in results}})

    # 1. grid over all-simple events
    idx = 0
    aliases = (None, 'A', 'B')
    refs = (None, 'A', 'B', 'C')
    total = 0
    for sk in gen.SCOPES:
        for pk in gen.PATTERNS:
            chain = [name for name, _ in SCO.binding_chain(sk, pk)]
            n = len(chain)
            total += (len(aliases) ** n) * (len(refs) ** n)
    keep = 1.0 if B['grid_sample'] is None else min(1.0, B['grid_sample'] / total)
    for sk in gen.SCOPES:
        for pk in gen.PATTERNS:
            chain = [name for name, _ in SCO.binding_chain(sk, pk)]
            n = len(chain)
            for al in itertools.product(aliases, repeat=n):
                for rf in itertools.product(refs, repeat=n):
                    idx += 1
                    if not ctx.mine(idx):
                        continue
                    spec = {}
                    for i, pos in enumerate(chain):
                        pl = gen.pick(rng, PLACEMENTS) if rf[i] else gen.pick(rng, ('none', 'top'))
                        spec[pos] = [(TOPICS[i], al[i], rf[i], pl)]
                    p = make_case(sk, pk, spec)
                    if keep < 1.0:
                        # valid combinations are rare in the grid: sample them ten times as densely
                        k2 = min(1.0, keep * 10) if SCO.verdict(p)[0] == SCO.ACCEPT else keep
                        if rng.random() > k2:
                            continue
                    judge(p, f'{sk}|{pk}|{al}|{rf}', any(al) and any(rf))

    # 2. sampled: disjunctions, third alias, duplicate channels
    for i in range(ctx.share(B['random'])):
        sk, pk = gen.pick(rng, gen.SCOPES), gen.pick(rng, gen.PATTERNS)
        chain = [name for name, _ in SCO.binding_chain(sk, pk)]
        spec = {}
        tnames = list(TOPICS)
        rng.shuffle(tnames)
        dup = rng.random() < 0.12
        for pos in chain:
            w = rng.choice((1, 1, 2, 2, 3, 4))
            alts = []
            for _ in range(w):
                t = tnames.pop() if tnames else f't{rng.randrange(99)}'
                names = ('A', 'B', 'C', 'D') if i % 3 else ('M', 'Msg', 'sg', 'BA', 'A', 'aM')  # names inside one another
                al = gen.pick(rng, (None, None) + names[:4])
                rf = gen.pick(rng, (None, None) + names)
                if rng.random() < 0.6:
                    # bias towards valid bindings: reference something bound by an earlier position
                    seen = [a[1] for q in spec.values() for a in q if a[1]]
                    rf = gen.pick(rng, seen) if seen and rng.random() < 0.7 else None
                    if al in seen:
                        al = None
                alts.append((t, al, rf, gen.pick(rng, PLACEMENTS) if rf else gen.pick(rng, ('none', 'top'))))
            if dup and w >= 2 and rng.random() < 0.5:
                alts[-1] = (alts[0][0],) + alts[-1][1:]
            spec[pos] = alts
        p = make_case(sk, pk, spec)
        ctx.count('disjunction_cases')
        judge(p, f'rnd|{sk}|{pk}|' + '|'.join(f'{pos}:' + ','.join(f'{a}/{r}/{pl}' for _, a, r, pl in alts)
                                             for pos, alts in spec.items()), True, ('shape:disjunction',))

    # 3. quantifier hygiene, in every event position
    for rep in range(B['hygiene']):
        for name, q in HYGIENE:
            sk, pk = gen.pick(rng, gen.SCOPES), gen.pick(rng, gen.PATTERNS)
            if not ctx.mine(rep * 31 + len(name)):
                continue
            chain = [n for n, _ in SCO.binding_chain(sk, pk)]
            target = gen.pick(rng, chain)
            events = {}
            for i, pos in enumerate(chain):
                pred = None
                if pos == target:
                    pred = q if rng.random() < 0.5 else ('bin', gen.pick(rng, ('and', 'or')), ('bin', '>', A.fld('x'), A.num('0')), q)
                events[pos] = ('ev', TOPICS[i], None, pred)
            p = gen.assemble(sk, pk, events)
            ctx.count('hygiene_cases')
            judge(p, f'hyg|{name}|{sk}|{pk}|{target}', True, ('shape:hygiene-' + name,))
