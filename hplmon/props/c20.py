"""C20 - type-set narrowing is set intersection (exhaustive over the 128 type sets)."""
import itertools

from ..model import typeset
from .. import monitors

ID = 'C20'
LEVEL = 'exploration'
RULE = ('Exhaustive: all 128x128 ordered pairs of type sets (cast, can_be, commutativity, idempotence), '
        'all 128 singles (can_be_* properties, named unions), unions of 0..4 sets, monotonicity over all '
        '(S subset S\', T) with |S\'-S|=1, and associativity over sampled (quick) or all 128^3 (thorough) '
        'triples; every call goes through the D monitor on the real DataType methods and is judged against '
        'a frozenset model. A case is non-trivial when no operand is the empty set or ANY; distinct = '
        'distinct (operation, operand codes).')
RULE_ADDED = " Since the seeding rounds: node-level narrowing on var/field nodes inside the kind's default set; fresh-process probes (new interpreter, operands built from base members, the operation under test first); union called with generators, iterators, maps, lists, tuples and dict views (the monitor hands the callee the same kind of iterable)."
ASSUMPTIONS = [
    'the seven base types are the documented ones (BOOL NUMBER STRING ARRAY RANGE SET MESSAGE); type sets are '
    'identified through the base members by name, not by integer value',
    'Python enum.Flag operators | and & themselves are trusted to build and decode members',
]
EXHAUSTIVE = {'quick': True, 'thorough': True}
FLOORS = {
    'quick': {'evaluations': 30000, 'pairs_judged': 16384, 'D_cast_calls': 30000},
    'thorough': {'evaluations': 1000000, 'pairs_judged': 16384, 'triples_judged': 2097152},
}
SHARDS = {'quick': 8, 'thorough': 16}


def _outcome(fn):
    try:
        return ('ok', fn())
    except TypeError:
        return ('TypeError', None)
    except BaseException as e:  # any other class is a violation by itself
        return (type(e).__name__, None)


def run(ctx):
    from hpl.types import DataType

    D = monitors.D.install()
    br = typeset.Bridge(DataType)
    subsets = typeset.all_subsets()
    members = [br.member(s) for s in subsets]
    ANY = frozenset(typeset.BASE)

    def viol(kind, **w):
        ctx.begin_case(())
        ctx.violation(kind, {k: repr(v) for k, v in w.items()}, features=[f'api:{kind}'])

    # named constants and distinctness of base members (shard 0 only; tiny)
    if ctx.shard == 0:
        for name, s in typeset.NAMED.items():
            ctx.evaluation(f'named/{name}', nontrivial=True)
            try:
                m = DataType[name]
            except KeyError:
                viol('named-missing', name=name)
                continue
            if br.bits(m) != s or m != br.member(s):
                viol('named-constant', name=name, member=m, expected=sorted(s))
        if len({br.base[b] for b in typeset.BASE}) != 7 or any(
                len(br.bits(br.base[b])) != 1 for b in typeset.BASE):
            viol('base-not-distinct')
        for i, s in enumerate(subsets):
            m = members[i]
            ctx.evaluation(f'single/{i}', nontrivial=bool(s) and s != ANY)
            if br.bits(m) != s:
                viol('member-decode', s=sorted(s), m=m)
            for prop, b in typeset.CAN_BE_PROPS.items():
                got = getattr(m, prop)
                if got is not (b in s):
                    viol('can_be_prop', prop=prop, s=m, got=got)
            ctx.count('singles_judged')
        ctx.sample({'op': 'cast', 's': 'BOOL|NUMBER|STRING', 't': 'NUMBER|ARRAY',
                    'expected': 'NUMBER', 'observed': str(members[7].cast(members[10]))})

    # all pairs, partitioned by first operand
    for i, s in enumerate(subsets):
        if not ctx.mine(i):
            continue
        a = members[i]
        for j, t in enumerate(subsets):
            b = members[j]
            inter = s & t
            nontriv = bool(s) and bool(t) and s != ANY and t != ANY
            ctx.evaluation(f'pair/{i}/{j}', nontrivial=nontriv)
            ctx.count('pairs_judged')
            o1 = _outcome(lambda: a.cast(b))
            o2 = _outcome(lambda: b.cast(a))
            if inter:
                if o1[0] != 'ok' or o1[1] != br.member(inter) or br.bits(o1[1]) != inter:
                    viol('cast', s=a, t=b, observed=o1, expected=sorted(inter))
                else:
                    # idempotence
                    o3 = _outcome(lambda: o1[1].cast(b))
                    if o3 != o1:
                        viol('cast-idempotence', s=a, t=b, once=o1, twice=o3)
            else:
                if o1[0] != 'TypeError':
                    viol('cast-disjoint', s=a, t=b, observed=o1)
            if o1 != o2:
                viol('cast-commutativity', s=a, t=b, st=o1, ts=o2)
            cb = a.can_be(b)
            if cb is not bool(inter):
                viol('can_be', s=a, t=b, observed=cb)
            u = DataType.union([a, b])
            if br.bits(u) != (s | t) or u != br.member(s | t):
                viol('union2', s=a, t=b, observed=u)
        # monotonicity: S' = S + one base type
        for bname in typeset.BASE:
            if bname in s:
                continue
            s2 = s | {bname}
            a2 = br.member(s2)
            for j, t in enumerate(subsets):
                b = members[j]
                o1 = _outcome(lambda: a.cast(b))
                o2 = _outcome(lambda: a2.cast(b))
                ctx.evaluation()
                ctx.count('monotone_judged')
                if o1[0] == 'ok':
                    if o2[0] != 'ok' or not br.bits(o1[1]) <= br.bits(o2[1]):
                        viol('cast-monotone', s=a, s2=a2, t=b, small=o1, big=o2)

    # the same narrowing through its entry point on AST nodes: a reference node stores the type set it is given, so
    # node.cast(t) must carry exactly stored & t (or raise a type error when that is empty), for every pair
    from hpl.ast import HplFieldAccess, HplThisMessage, HplVarReference

    def node_for(kind, m):
        if kind == 'var':
            return HplVarReference('@v', data_type=m)
        return HplFieldAccess(HplThisMessage(), 'f', data_type=m)
    for i, s in enumerate(subsets):
        if not ctx.mine(i) or not s:
            continue
        for kind in ('var', 'field'):
            on = _outcome(lambda: node_for(kind, members[i]))
            if on[0] != 'ok' or br.bits(on[1].data_type) != s or not s <= br.bits(on[1].default_data_type):
                # the constructor does not admit this type set for this kind of node, or admits it although it sticks
                # out of the kind's default set - narrowing such a node also intersects with the default, which is
                # node policy, not the type-set algebra this property is about
                continue
            node = on[1]
            for j, t in enumerate(subsets):
                if not t:
                    continue
                inter = s & t
                oc = _outcome(lambda: node.cast(members[j]))
                ctx.evaluation(f'node/{kind}/{i}/{j}', nontrivial=bool(inter) and s != ANY and t != ANY)
                ctx.count('node_casts_judged')
                if ctx.counters['node_casts_judged'] % 2000 == 1:
                    ctx.sample({'op': 'node cast', 'node': kind, 'stored': sorted(s), 'target': sorted(t),
                                'expected': sorted(inter) or 'TypeError',
                                'observed': sorted(br.bits(oc[1].data_type)) if oc[0] == 'ok' else oc[0]})
                if inter:
                    if oc[0] != 'ok' or br.bits(oc[1].data_type) != inter:
                        viol('node-cast', node=kind, s=members[i], t=members[j], expected=sorted(inter),
                             observed=str(oc[1].data_type) if oc[0] == 'ok' else oc)
                elif oc[0] != 'TypeError':
                    viol('node-cast-disjoint', node=kind, s=members[i], t=members[j],
                         observed=str(oc[1].data_type) if oc[0] == 'ok' else oc)

    # unions of 0..4 operands (least upper bound)
    rng = ctx.rng
    n_unions = ctx.share(4000 if ctx.tier == 'quick' else 60000)
    for _ in range(n_unions):
        k = rng.randrange(0, 5)
        idx = [rng.randrange(128) for _ in range(k)]
        ops = [members[i] for i in idx]
        form = rng.randrange(6)  # the signature takes any iterable: one-shot and re-iterable ones alike
        u = DataType.union((m for m in ops) if form == 0 else ops if form == 1 else tuple(ops) if form == 2
                           else iter(ops) if form == 3 else map(lambda m: m, ops) if form == 4 else dict.fromkeys(ops))
        exp = frozenset().union(*[subsets[i] for i in idx]) if idx else frozenset()
        ctx.evaluation('union/' + '/'.join(map(str, sorted(set(idx)))), nontrivial=k >= 2)
        ctx.count('unions_judged')
        if br.bits(u) != exp or u != br.member(exp):
            viol('union', operands=[members[i] for i in idx], observed=u)
        # least upper bound: every operand narrows u to itself; any v containing all operands contains u
        for i in idx:
            if subsets[i] and _outcome(lambda: u.cast(members[i])) != ('ok', members[i]):
                viol('union-upper-bound', u=u, operand=members[i])

    # associativity
    def assoc(i, j, k):
        a, b, c = members[i], members[j], members[k]
        l = _outcome(lambda: a.cast(b).cast(c))
        r = _outcome(lambda: a.cast(b.cast(c)))
        ctx.evaluation()
        ctx.count('triples_judged')
        exp = subsets[i] & subsets[j] & subsets[k]
        if l != r or (exp and (l[0] != 'ok' or br.bits(l[1]) != exp)) or (not exp and l[0] != 'TypeError'):
            viol('cast-associativity', s=a, t=b, u=c, left=l, right=r)

    if ctx.tier == 'thorough':
        for i in range(128):
            if not ctx.mine(i):
                continue
            for j in range(128):
                for k in range(128):
                    assoc(i, j, k)
    else:
        for _ in range(ctx.share(60000)):
            assoc(rng.randrange(128), rng.randrange(128), rng.randrange(128))

    # in-the-wild pairs: parse a handful of texts with D armed
    if ctx.shard == 0:
        from hpl.parser import property_parser

        before = len(D.pairs)
        p = property_parser()
        for text in ('globally: no a {x > 1 and y = "s" and not z}',
                     'after a as A {xs[0] in [1 to n]}: b {forall i in ys: @i = @A.v} causes c within 3 s',
                     'until q {len(xs) > 0}: some (b {abs(x) < 1} or c {m.f[1].g = PI})'):
            p.parse(text)
        ctx.count('D_pairs_seen_in_parses', len(D.pairs) - before)

    ctx.count('D_cast_calls', D.calls['cast'])
    ctx.count('D_can_be_calls', D.calls['can_be'])
    ctx.count('D_union_calls', D.calls['union'])
    for f in D.faults:
        ctx.begin_case(())
        ctx.violation('D-monitor', f, features=['api:D'])

    # fresh-process probes: in this process every type set has long been constructed (the model bridge enumerates
    # all 128); an implementation whose answer depends on which sets already exist as objects is only visible
    # where the operation under test is the *first* to produce its result, i.e. in a new interpreter
    import json
    import subprocess
    import sys

    from .. import env

    script = (
        'import sys, json, functools, operator\n'
        'sys.path.insert(0, sys.argv[1])\n'
        'from hpl.types import DataType as D\n'
        'out = []\n'
        'for op, sa, sb in json.loads(sys.argv[2]):\n'
        '    a = functools.reduce(operator.or_, [D[n] for n in sa])\n'
        '    b = functools.reduce(operator.or_, [D[n] for n in sb])\n'
        '    try:\n'
        '        r = a.cast(b) if op == "cast" else (a.can_be(b) if op == "can_be" else D.union([a, b]))\n'
        '        out.append(["ok", r if isinstance(r, bool) else r.value])\n'
        '    except TypeError:\n'
        '        out.append(["TypeError", None])\n'
        '    except BaseException as e:\n'
        '        out.append([type(e).__name__, None])\n'
        'print(json.dumps(out))\n')
    n_probe = ctx.share(32 if ctx.tier == 'quick' else 480)
    for _ in range(n_probe):
        probes = []
        for _k in range(3):
            sa = rng.sample(typeset.BASE, rng.randrange(2, 5))
            sb = rng.sample(typeset.BASE, rng.randrange(2, 5))
            probes.append((rng.choice(('cast', 'cast', 'can_be', 'union')), sa, sb))
        try:
            r = subprocess.run([sys.executable, '-c', script, env.SRC, json.dumps(probes)], capture_output=True, text=True,
                               timeout=120)
            got = json.loads(r.stdout.strip().splitlines()[-1])
        except Exception as ex:  # no answer is no verdict
            ctx.skip('fresh-process-probe-failed:' + type(ex).__name__)
            continue
        for (op, sa, sb), (st, val) in zip(probes, got):
            s, t = frozenset(sa), frozenset(sb)
            ctx.evaluation(f'fresh/{op}/{len(s & t)}/{len(s)}/{len(t)}', True)
            ctx.count('fresh_process_probes')
            if ctx.counters['fresh_process_probes'] <= 3:
                ctx.sample({'op': 'fresh-process ' + op, 'first_operand_built_from': sa, 'second_operand_built_from': sb,
                            'expected': list(exp), 'observed': [st, val]})
            if op == 'cast':
                exp = ('ok', br.member(s & t).value) if (s & t) else ('TypeError', None)
            elif op == 'can_be':
                exp = ('ok', bool(s & t))
            else:
                exp = ('ok', br.member(s | t).value)
            if (st, val) != exp:
                ctx.begin_case(())
                ctx.violation('fresh-process-' + op, {'first_operand_built_from': sa, 'second_operand_built_from': sb,
                                                      'expected': list(exp), 'observed': [st, val],
                                                      'note': 'first operation of a new interpreter on this pair'}, ())
