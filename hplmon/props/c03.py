"""C03 - every AST the library hands out is well-typed."""
from .. import absyn as A
from .. import gen, hplapi, monitors, semantic as S, shrink
from ..model import typeset, typing as TY

ID = 'C03'
LEVEL = 'exploration'
TECHNIQUE = ('runtime monitoring: invariant monitor I walks every AST returned by a parser entry point or a rewriting '
             'function (attrs field walk) and checks the node-level typing clauses against independent operator and '
             'function signature tables')
RULE = ('Inputs: typed generator, untyped grammar generator and clash-injected texts through all five parser entry '
        'points; every accepted AST is passed to simplify, split_and, refactor_reference (each alias present), both '
        'replacements, negate, join (with a second generated predicate) and canonical_form, and every result again to '
        'each of them (compositions of depth 2); each returned tree is walked. evaluations = trees walked; '
        'non-trivial = tree with an operator/function whose parameter type is narrower than the operand kind\'s '
        'default; distinct = shape x producing API chain.')
RULE_ADDED = ' Since the seeding rounds: quantifiers over tiny reference sets, free variables named like a neighbouring bound variable, own-alias/bare spellings of one field at the property entry point, human-written corpus, quantifiers over literal domains whose variable occurs several times at kinds of its own; bound-variable occurrences placed under a nested quantifier (condition or domain).'
ASSUMPTIONS = ['signature tables of DESIGN.md Appendix A.2/A.3 are the documented typing; "same reference" is computed '
               'structurally (same accessor path from the same base, quantifier scope respected)']
FLOORS = {
    'quick': {'evaluations': 40000, 'distinct_nontrivial': 6000, 'nodes_walked': 400000, 'parse_results': 6000,
              'rewrite_results': 25000, 'depth2_results': 8000, 'property_results': 1500},
    'thorough': {'evaluations': 800000, 'distinct_nontrivial': 80000, 'nodes_walked': 8000000,
                 'parse_results': 120000, 'rewrite_results': 500000, 'depth2_results': 150000,
                 'property_results': 30000},
}
BUDGET = {'quick': {'exprs': 14000, 'props': 3000}, 'thorough': {'exprs': 700000, 'props': 120000}}
TIMEOUT = {'quick': 900, 'thorough': 7200}


def rewrites_of(h, rng, aliases, other_pred):
    """(name, thunk) for every rewriting function applicable to h"""
    from hpl import rewrite as RW

    out = []
    is_pred = bool(getattr(h, 'is_predicate', False))
    is_expr = bool(getattr(h, 'is_expression', False))
    if is_pred or is_expr:
        out.append(('simplify', lambda: RW.simplify(h)))
        cond = h.condition if is_pred else h
        if cond.can_be_bool:
            out.append(('split_and', lambda: RW.split_and(h)))
            for a in aliases:
                out.append(('refactor_reference', lambda a=a: RW.refactor_reference(h, a)))
        out.append(('replace_this_with_var', lambda: RW.replace_this_with_var(h, 'Q7')))
        for a in aliases:
            out.append(('replace_var_with_this', lambda a=a: RW.replace_var_with_this(h, a)))
    if is_pred:
        out.append(('negate', lambda: h.negate()))
        if other_pred is not None:
            out.append(('join', lambda: h.join(other_pred)))
    if getattr(h, 'is_property', False):
        out.append(('canonical_form', lambda: RW.canonical_form(h)))
    return out


def flatten(r):
    if isinstance(r, (list, tuple)):
        out = []
        for x in r:
            out.extend(flatten(x))
        return out
    return [r] if hasattr(type(r), '__attrs_attrs__') else []


def run(ctx):
    from hpl.types import DataType

    rng = ctx.rng
    B = BUDGET[ctx.tier]
    inv = TY.Invariant(typeset.Bridge(DataType))
    P = {k: hplapi.parser(k) for k in ('specification', 'property', 'predicate', 'condition', 'expression')}

    def walk(obj, chain, text, feats, sig, abs_e=None, level=None):
        rep = []
        before = inv.nodes
        inv.check_any(obj, rep, '$')
        ctx.count('nodes_walked', inv.nodes - before)
        nontrivial = (inv.nodes - before) >= 3
        ctx.evaluation(f'{"/".join(chain)}|{sig}', nontrivial)
        if rep:
            where, clause, parent, detail = rep[0]
            f2 = set(feats) | {'out:' + clause, 'api:' + chain[-1]}
            if ':' in str(parent):
                f2.add('out:parent-' + str(parent).split(':', 1)[0])
            shr = None
            if abs_e is not None and len(chain) == 1:
                def shr():
                    def fails(c):
                        if not A.renderable(c):
                            return False
                        o = hplapi.outcome(P[level].parse, A.render_expr(c))
                        if o[0] != 'ok':
                            return False
                        r2 = []
                        inv.check_any(o[1], r2, '$')
                        return any(x[1] == clause for x in r2)
                    m = shrink.shrink_expr(abs_e, fails)
                    return ({'input': A.render_expr(m), 'chain': chain, 'clause': clause},
                            A.features(m) | {'out:' + clause, 'api:' + chain[-1]} | (
                                {'out:parent-' + str(parent).split(':', 1)[0]} if ':' in str(parent) else set()))
            ctx.violation('ill-typed-node', {'input': text[:300], 'chain': list(chain), 'where': where,
                                             'clause': clause, 'node': str(parent), 'detail': str(detail)[:200],
                                             'more': len(rep) - 1}, f2, shr)
            return False
        return True

    def explore(h, text, feats, sig, aliases, other_pred, abs_e=None, level=None):
        ctx.count('parse_results')
        if not walk(h, ['parse'], text, feats, sig, abs_e, level):
            return
        if (getattr(h, 'is_expression', False) or getattr(h, 'is_predicate', False)) and S.power_bomb(h):
            ctx.skip('power-too-large-to-fold')
            return
        for name, thunk in rewrites_of(h, rng, aliases, other_pred):
            o = hplapi.outcome(thunk)
            if o[0] != 'ok':
                ctx.skip('rewrite-raised:' + name)
                continue
            ctx.count('rewrite_results')
            ok = walk(o[1], ['parse', name], text, feats, sig)
            if not ok:
                continue
            if rng.random() < 0.35:
                for r in flatten(o[1])[:2]:
                    if (getattr(r, 'is_expression', False) or getattr(r, 'is_predicate', False)) and S.power_bomb(r):
                        continue  # e.g. the join with a predicate that holds an astronomically large power
                    for name2, thunk2 in rewrites_of(r, rng, aliases, other_pred):
                        if rng.random() < 0.5:
                            continue
                        o2 = hplapi.outcome(thunk2)
                        if o2[0] != 'ok':
                            continue
                        ctx.count('depth2_results')
                        walk(o2[1], ['parse', name, name2], text, feats, sig)

    other_pred = None
    for n in range(ctx.share(B['exprs'])):
        k = n % 5
        if k == 4:
            e = gen.Untyped(rng, maxdepth=rng.randrange(1, 5), kw_names=0.05).cond(3)
            aliases = sorted(A.free_vars(e))[:2]
        else:
            t = gen.pick(rng, (gen.BOOL, gen.BOOL, gen.BOOL, gen.NUM, gen.STR))
            case = S.random_case(rng, t, maxdepth=rng.randrange(1, 6), bias='simplify' if n % 2 else 'plain')
            e = case.e
            aliases = list(case.aliases)
            if k == 3 and A.size(e) > 2:
                from . import c05
                inj = c05.inject_clash(rng, e) if rng.random() < 0.5 else (c05.inject_reuse(rng, e) if t == gen.BOOL else None)
                if inj is not None:
                    e = inj[0]
        if n % 13 == 0 and k != 4:
            # a quantifier over a tiny set of references whose variable is compared with another reference and used
            # at a narrower type, in either order (rewrites that instantiate the variable share one node)
            tg3 = gen.Typed(rng, this=case.this, aliases=case.aliases, maxdepth=1)
            r1, r2, r3 = tg3.ref(gen.NUM, 0), tg3.ref(gen.NUM, 0), tg3.ref(gen.NUM, 0)
            if r1 is not None and r2 is not None and r3 is not None:
                eq = ('bin', gen.pick(rng, ('=', '!=')), A.var('qi'), r3)
                narrow = gen.pick(rng, (('bin', '>', A.var('qi'), A.num('0')), ('bin', '<', ('bin', '+', A.var('qi'), A.num('1')), r2)))
                body = ('bin', gen.pick(rng, ('and', 'or', 'implies')), eq, narrow) if rng.random() < 0.6 else ('bin', 'and', narrow, eq)
                e = ('quant', gen.pick(rng, ('forall', 'exists')), 'qi', ('set', gen.pick(rng, ((r1,), (r1, r1), (r1, r2)))), body)
        forced_level = None
        if n % 19 == 0 and k != 4:
            # a quantifier over a literal domain whose variable occurs two or three times, each occurrence at a kind of
            # its own (some inside the element type, some outside, in any order), with or without a generic occurrence
            from . import c05
            dk = gen.pick(rng, ('NUMBER', 'NUMBER', 'STRING', 'BOOL', 'RANGE'))
            lits = {'NUMBER': (A.num('1'), A.num('2'), A.num('0.5')), 'STRING': (A.string('a'), A.string('zz')),
                    'BOOL': (A.boolean(True), A.boolean(False))}
            if dk == 'RANGE':
                dom = ('range', A.num('0'), A.num(gen.pick(rng, ('1', '3', '10'))), rng.random() < 0.3, rng.random() < 0.3)
            else:
                # members: literals, and non-literals whose type is just as definite (operator and function results)
                derived = {'NUMBER': (('bin', '+', A.num('1'), A.num('2')), A.neg(A.num('1')), ('call', 'abs', (A.num('2'),)),
                                      ('call', 'len', (('set', (A.num('1'),)),))),
                           'STRING': (('call', 'str', (A.num('1'),)),),
                           'BOOL': (A.not_(A.boolean(True)), ('bin', '<', A.num('1'), A.num('2')))}
                dom = ('set', tuple(gen.pick(rng, derived[dk] if rng.random() < 0.4 else lits[dk])
                                    for _ in range(rng.randrange(1, 4))))
            v = gen.pick(rng, ('x', 'k', 'qv'))
            elem = 'NUMBER' if dk == 'RANGE' else dk

            def use():
                r = rng.random()
                if r < 0.2:
                    return ('bin', gen.pick(rng, ('=', '!=')), A.var(v), A.var('y'))
                if r < 0.35:
                    return ('bin', '=', A.var(v), gen.pick(rng, lits[gen.pick(rng, ('NUMBER', 'STRING', 'BOOL'))]))
                u = c05.USES[gen.pick(rng, (elem, elem, 'NUMBER', 'STRING', 'BOOL'))](A.var(v))
                if rng.random() < 0.3:
                    # the occurrence sits inside a nested quantifier (its condition, or now and then its domain)
                    ctx.count('bound_variable_used_under_nested_quantifier')
                    ndom = ('set', (A.num('3'), A.var(v))) if rng.random() < 0.2 else ('set', (A.num('3'), A.num('4')))
                    return ('quant', gen.pick(rng, ('forall', 'exists')), 'qw', ndom,
                            ('bin', gen.pick(rng, ('and', 'or')), ('bin', '>', A.var('qw'), A.num('0')), u))
                return u
            body = use()
            for _ in range(rng.randrange(1, 3)):
                body = ('bin', gen.pick(rng, ('and', 'or', 'implies')), body, use()) if rng.random() < 0.5 \
                    else ('bin', gen.pick(rng, ('and', 'or')), use(), body)
            e = ('quant', gen.pick(rng, ('forall', 'exists')), v, dom, body)
            aliases = ['y']
            ctx.count('multi_use_bound_variable_cases')
        if n % 17 == 0 and k != 4:
            # a free variable that has the name of a variable bound by a quantifier next to it, used on both sides of
            # the quantifier at kinds that are sometimes compatible and sometimes not (free and bound occurrences are
            # different references; all free ones are one reference)
            from . import c05
            tg4 = gen.Typed(rng, this=case.this, aliases=case.aliases, maxdepth=1)
            arr, _ = tg4.ref_where(lambda pt: pt[0] == 'arr' and pt[1] == gen.NUM, 1)
            if arr is not None:
                v = gen.pick(rng, ('i', 'j'))
                K1, K2 = gen.pick(rng, ('BOOL', 'NUMBER', 'STRING')), gen.pick(rng, ('BOOL', 'NUMBER', 'STRING'))
                q = ('quant', gen.pick(rng, ('forall', 'exists')), v, arr, ('bin', '>', A.var(v), A.num('1')))
                e = ('bin', 'and', ('bin', 'and', c05.USES[K1](A.var(v)), q), c05.USES[K2](A.var(v)))
                aliases = [v]
                forced_level = gen.pick(rng, ('condition', 'predicate'))
        if not A.renderable(e):
            continue
        level = forced_level or (gen.pick(rng, ('expression', 'condition', 'predicate')) if e[0] != 'lit' else 'expression')
        toks = A.expr_tokens(e)
        if level == 'predicate':
            toks = ['{'] + toks + ['}']
        text = A.layout(toks)
        feats = A.features(e) | {'api:parse_' + level}
        ctx.begin_case(feats)
        o = hplapi.outcome(P[level].parse, text)
        if o[0] != 'ok':
            ctx.skip('rejected:' + type(o[1]).__name__)
            continue
        h = o[1]
        if getattr(h, 'is_predicate', False) and not getattr(h, 'is_vacuous', False) and rng.random() < 0.3 \
                and not S.power_bomb(h):
            other_pred = h
        if n % 300 == 0:
            ctx.sample({'input': text[:200], 'level': level, 'rewrites_applied': [x[0] for x in rewrites_of(h, rng, aliases, other_pred)]})
        explore(h, text, feats, A.shape(e), aliases, other_pred if (other_pred is not h) else None,
                abs_e=e if level == 'expression' else None, level=level)

    # a reference spelled once through the event's own alias and once bare, at kinds that sometimes clash: the two
    # spellings become one reference only when the event rewrites its alias (property entry point)
    from . import c05
    for n in range(ctx.share(B['props']) // 4):
        case = S.random_case(rng, gen.BOOL, maxdepth=rng.randrange(1, 4), n_aliases=0)
        if not A.renderable(case.e) or case.e[0] == 'lit':
            continue
        inj = c05.inject_reuse(rng, case.e, 'M')
        if inj is None or not A.renderable(inj[0]):
            continue
        ptext = A.render_prop(('prop', (), ('scope', 'globally', None, None), ('pat', 'no', ('ev', 'a', 'M', inj[0]), None, None)))
        feats = A.features(inj[0]) | {'api:parse_property', 'shape:own-alias-spelling'}
        ctx.begin_case(feats)
        o = hplapi.outcome(P['property'].parse, ptext)
        if o[0] != 'ok':
            ctx.skip('rejected:' + type(o[1]).__name__)
            continue
        ctx.count('own_alias_spelling_accepted')
        explore(o[1], ptext, feats, 'ownalias:' + A.shape(inj[0]), [], None)

    pool = []
    for n in range(ctx.share(B['props'])):
        pg = gen.PropGen(rng, maxdepth=rng.randrange(1, 4), max_width=rng.choice((1, 2, 3)), kw_names=0.05)
        p, _, _ = pg.make(n=n)
        text = A.render_prop(p)
        feats = {'api:parse_property'}
        for ev in A.prop_positions(p).values():
            for se in A.simple_events(ev):
                if se[3] is not None:
                    feats |= A.features(se[3])
        ctx.begin_case(feats)
        o = hplapi.outcome(P['property'].parse, text)
        if o[0] != 'ok':
            ctx.skip('rejected:' + type(o[1]).__name__)
            continue
        ctx.count('property_results')
        pool.append(text)
        explore(o[1], text, feats, A.prop_shape(p), [], None)
        if n % 10 == 0:
            st = '\n'.join(gen.pick(rng, pool) for _ in range(rng.randrange(1, 4)))
            os_ = hplapi.outcome(P['specification'].parse, st)
            if os_[0] == 'ok':
                walk(os_[1], ['parse_specification'], st, feats, 'spec')

    # human-written inputs (tests and documentation of the repository), shard 0
    if ctx.shard == 0:
        from .. import corpus
        from ..runner import h64

        for level in ('property', 'specification', 'condition', 'expression'):
            for origin, text in corpus.accepted(level):
                feats = {'api:parse_' + level, 'shape:corpus'}
                ctx.begin_case(feats)
                o = hplapi.outcome(P[level].parse, text)
                if o[0] != 'ok':
                    continue
                ctx.count('corpus_results')
                if level == 'specification':
                    walk(o[1], ['parse_specification'], text, feats, f'corpus:{h64(text)}')
                else:
                    names = sorted(S.hpl_free_vars(o[1]))[:2] if level != 'property' else []
                    explore(o[1], text, feats, f'corpus:{h64(text)}', names, None)
