"""C13 - predicate combinators and reference substitutions are semantically exact."""
from .. import absyn as A
from .. import gen, hplapi, monitors, semantic as S, shrink
from ..model import eval as E

ID = 'C13'
LEVEL = 'exploration'
TECHNIQUE = ('runtime monitoring: negate/join/replace_this_with_var/replace_var_with_this and event construction are '
             'driven on generated predicates and expressions; oracle = reference evaluator under the corresponding '
             'environment change, snapshot equality for the inverse law and the alias rewriting')
RULE = ('Typed predicates and expressions with the current message and a message alias in every child slot of every '
        'node kind (operands, set elements, range bounds, indices, accessed objects, quantifier domains and bodies, '
        'function arguments; a slot-coverage matrix is measured), both vacuous predicates. negate/join are judged on '
        'valuation grids; the replacements by evaluating the result with the variable bound to the message; the '
        'inverse law by snapshot equality; events `t as A {f}` against `t {f[@A:=this]}`. Non-trivial = >= 1 replaced '
        'occurrence at depth >= 2 (or a compound predicate for negate/join); distinct = shape x operation.')
RULE_ADDED = ' Since the seeding rounds: replacements on atomic expressions; histories through but(); joins of related comparisons (same two operands, every pair of relational operators, same and mirrored order, negations) on valuations with the operands <, = and > each other; closed comparisons over NAN/INF judged through the library\'s own constant folder.'
ASSUMPTIONS = ['reference evaluator of DESIGN.md 4.1', 'aliases are never captured by a quantifier of the same name; '
               'bare @A at a primitive type and join of predicates with clashing shared references are not judged']
FLOORS = {
    'quick': {'evaluations': 12000, 'distinct_nontrivial': 2500, 'valuations_judged': 100000, 'negate_judged': 2000,
              'join_judged': 2000, 'this_to_var_judged': 2500, 'var_to_this_judged': 2000, 'inverse_judged': 2000,
              'events_judged': 1000, 'slots_filled': 25},
    'thorough': {'evaluations': 250000, 'distinct_nontrivial': 30000, 'valuations_judged': 2000000,
                 'negate_judged': 40000, 'join_judged': 40000, 'this_to_var_judged': 50000,
                 'var_to_this_judged': 40000, 'inverse_judged': 40000, 'events_judged': 20000, 'slots_filled': 30},
}
BUDGET = {'quick': {'n': 10000, 'envs': 16}, 'thorough': {'n': 300000, 'envs': 24}}
TIMEOUT = {'quick': 900, 'thorough': 7200}


def slots_of(e, is_target):
    """(parent tag, slot index) of every occurrence satisfying is_target, with its depth"""
    out = []

    def rec(x, parent, slot, depth):
        if is_target(x):
            out.append((parent, slot, depth))
        for i, k in enumerate(A.children(x)):
            rec(k, x[0] + (':' + x[1] if x[0] in ('un', 'bin', 'call', 'quant') else ''), i, depth + 1)

    rec(e, 'root', 0, 0)
    return out


def coverage_extra(tier, counters):
    slots = sorted(k[5:] for k in counters if k.startswith('slot:'))
    return {'slot_coverage': {'distinct_slots': len(slots), 'slots': slots}}


def run(ctx):
    from hpl.ast import HplContradiction, HplVacuousTruth
    from hpl.rewrite import replace_this_with_var, replace_var_with_this

    rng = ctx.rng
    B = BUDGET[ctx.tier]
    PC = hplapi.parser('condition')
    PE = hplapi.parser('expression')
    PP = hplapi.parser('property')
    seen_slots = set()

    def note_slots(e, is_target):
        for parent, slot, depth in slots_of(e, is_target):
            key = f'{parent}.{slot}'
            if key not in seen_slots:
                seen_slots.add(key)
            ctx.count('slot:' + key)

    def viol(kind, w, feats, shrinker=None):
        ctx.violation(kind, w, feats, shrinker)

    def value_check(kind, hin, env_in, hout, env_out, w, feats, e_abs=None, remake=None):
        readings = S.readings_for(hin, hout)
        fin = S.compile_all(hin, True, readings)
        fout = S.compile_all(hout, False, readings)
        judged = 0
        for ei, eo in zip(env_in, env_out):
            # evaluate input on ei, output on eo
            ok_all = True
            dis = 0
            for f1, f2 in zip(fin, fout):
                st, v = E.run(f1, ei)
                if st != 'ok':
                    ctx.skip(st)
                    ok_all = False
                    break
                st2, v2 = E.run(f2, eo)
                if st2 in ('fragile', 'ambiguous'):
                    ok_all = False
                    break
                if st2 == 'ok' and E.same_result(v, v2):
                    ok_all = False
                    judged += 1
                    break
                dis += 1
                last = (v, (st2, v2))
            if ok_all and dis == len(fin):
                judged += 1
                viol(kind, dict(w, env=S.env_repr(ei), input_value=repr(last[0]), output=repr(last[1])[:160]), feats)
                return judged
        ctx.count('valuations_judged', judged)
        return judged

    if ctx.shard == 0:
        # replacements on atoms: only the named variable / the message itself may change, whatever else is there
        from hpl.ast import HplFieldAccess, HplThisMessage, HplVarReference
        atoms = {'@A': lambda: HplVarReference('@A'), '@B': lambda: HplVarReference('@B'), '@BA': lambda: HplVarReference('@BA'),
                 'this': lambda: HplThisMessage(), '@B.x': lambda: HplFieldAccess(HplVarReference('@B'), 'x'),
                 'x': lambda: HplFieldAccess(HplThisMessage(), 'x')}
        ALIASES4 = ('A', 'B', 'BA', 'Z')
        expect_v2t = {('@A', 'A'): 'this', ('@B', 'B'): 'this', ('@BA', 'BA'): 'this', ('@B.x', 'B'): 'x'}
        expect_t2v = {('this', a): '@' + a for a in ALIASES4}
        expect_t2v.update({('x', a): f'@{a}.x' for a in ALIASES4})

        def build(want):
            if want in atoms:
                return atoms[want]()
            if want.endswith('.x'):
                return HplFieldAccess(HplVarReference(want[:-2]), 'x')
            return HplVarReference(want)
        for name, mk in atoms.items():
            for alias in ALIASES4:
                for api, fn, table in (('replace_var_with_this', replace_var_with_this, expect_v2t),
                                       ('replace_this_with_var', replace_this_with_var, expect_t2v)):
                    feats = {'api:' + api, 'shape:atomic-expression'}
                    ctx.begin_case(feats)
                    o = hplapi.outcome(fn, mk(), alias)
                    ctx.evaluation(f'atom|{api}|{name}|{alias}', True)
                    ctx.count('atomic_replacements_judged')
                    want = table.get((name, alias), name)  # unchanged unless the table says otherwise
                    exp = build(want)
                    if o[0] != 'ok':
                        viol('replace-raises', {'input': name, 'api': api, 'alias': alias, 'error': type(o[1]).__name__}, feats)
                    elif str(o[1]) != str(exp) or type(o[1]).__name__ != type(exp).__name__:
                        # (stored types may legitimately be narrower than in a fresh node: structure and classes only)
                        viol('replace-atom', {'input': name, 'api': api, 'alias': alias, 'expected': want, 'observed': str(o[1]),
                                              'observed_class': type(o[1]).__name__}, feats)

    # joins of *related* predicates: both compare the same two operands, with every pair of relational operators, in
    # the same or in the mirrored operand order, judged on valuations on which the operands are <, = and > each other
    RELOPS = ('=', '!=', '<', '<=', '>', '>=')
    pairs = (('x', '0'), ('x', 'y'), ('x', '@A.x'), ('x + 1', 'y'), ('@A.x', '@A.y'))
    grid_envs = [E.Env({'x': a, 'y': b}, {'A': {'x': c, 'y': d}})
                 for a in (-1, 0, 1) for b in (-1, 0, 1) for c in (-1, 0, 1) for d in (0, 1)]
    gi = 0
    for l, r in pairs:
        for op1 in RELOPS:
            for op2 in RELOPS:
                for mirrored in (False, True):
                    gi += 1
                    if not ctx.mine(gi):
                        continue
                    tp = f'{l} {op1} {r}'
                    tq = f'{r} {op2} {l}' if mirrored else f'{l} {op2} {r}'
                    op, oq = hplapi.outcome(PC.parse, tp), hplapi.outcome(PC.parse, tq)
                    if op[0] != 'ok' or oq[0] != 'ok':
                        continue
                    feats = {'api:join', 'shape:related-comparisons'}
                    for a, b, ta, tb in ((op[1], oq[1], tp, tq), (oq[1], op[1], tq, tp)):
                        ctx.begin_case(feats)
                        oj = hplapi.outcome(a.join, b)
                        ctx.evaluation(f'joinrel|{l}|{r}|{op1}|{op2}|{mirrored}', True)
                        ctx.count('related_joins_judged')
                        if oj[0] != 'ok':
                            viol('join-raises', {'p': ta, 'q': tb, 'error': type(oj[1]).__name__}, feats)
                        else:
                            _join_check(ctx, a, b, oj[1], grid_envs, ta, tb, feats, viol)
                    # ... and the negation of each joined with the other (p and not p among them)
                    on = hplapi.outcome(op[1].negate)
                    if on[0] == 'ok' and getattr(on[1], 'is_predicate', False):
                        ctx.begin_case(feats)
                        oj = hplapi.outcome(on[1].join, oq[1])
                        ctx.count('related_joins_judged')
                        if oj[0] == 'ok':
                            _join_check(ctx, on[1], oq[1], oj[1], grid_envs, f'not ({tp})', tq, feats, viol)
                        else:
                            viol('join-raises', {'p': f'not ({tp})', 'q': tq, 'error': type(oj[1]).__name__}, feats)

    # closed comparisons over non-finite constants: my evaluator leaves NAN/INF undefined, the library folds them the
    # IEEE way; here the library's own constant folder is the evaluator, and negate/join must be complement/conjunction
    # under it (self-consistency: whatever truth value p folds to, negate(p) must fold to the other one)
    if ctx.shard == 0:
        from hpl.parser import parse_predicate
        from hpl.rewrite import simplify as _simplify

        def truth(pred):
            o = hplapi.outcome(_simplify, pred)
            if o[0] != 'ok':
                return None
            name = type(o[1]).__name__
            return True if name == 'HplVacuousTruth' else (False if name == 'HplContradiction' else None)
        consts = ('NAN', 'INF', '-INF', '0', '1', '-1')
        closed = []
        for a in consts:
            for b in consts:
                for op in RELOPS:
                    closed.append(f'{a} {op} {b}')
        feats = {'api:negate', 'shape:closed-non-finite'}
        prev = None
        for t in closed:
            op_ = hplapi.outcome(parse_predicate, '{ ' + t + ' }')
            if op_[0] != 'ok':
                continue
            pr = op_[1]
            tv = truth(pr)
            if tv is None:
                continue
            ctx.begin_case(feats)
            on = hplapi.outcome(pr.negate)
            ctx.evaluation('closed|' + t, True)
            ctx.count('closed_non_finite_judged')
            if on[0] != 'ok':
                viol('negate-raises', {'input': t, 'error': type(on[1]).__name__}, feats)
            else:
                tn = truth(on[1])
                if tn is not None and tn is not (not tv):
                    viol('negate-value', {'input': '{ ' + t + ' }', 'negated': str(on[1])[:120], 'input_folds_to': tv,
                                          'negation_folds_to': tn, 'evaluator': "the library's constant folder"}, feats)
            if prev is not None:
                oj = hplapi.outcome(pr.join, prev[0])
                if oj[0] == 'ok':
                    tj = truth(oj[1])
                    if tj is not None and tj is not (tv and prev[1]):
                        viol('join-value', {'p': t, 'q': prev[2], 'joined': str(oj[1])[:120], 'p_value': tv, 'q_value': prev[1],
                                            'joined_value': tj, 'evaluator': "the library's constant folder"},
                             {'api:join', 'shape:closed-non-finite'})
            prev = (pr, tv, t)

    for n in range(ctx.share(B['n'])):
        # ---------------- negate / join on predicates ------------------------------------------
        case = S.random_case(rng, gen.BOOL, maxdepth=rng.randrange(1, 5), n_aliases=rng.choice((0, 1, 2)))
        if A.renderable(case.e):
            text = A.render_expr(case.e)
            o = hplapi.outcome(PC.parse, text)
            if o[0] == 'ok':
                p = o[1]
                envs = S.envs_for(rng, case, B['envs'])
                feats = A.features(case.e) | {'api:negate'}
                ctx.begin_case(feats)
                on = hplapi.outcome(p.negate)
                ctx.evaluation('neg:' + A.shape(case.e), A.size(case.e) > 2)
                ctx.count('negate_judged')
                if on[0] != 'ok':
                    viol('negate-raises', {'input': text, 'error': type(on[1]).__name__}, feats)
                elif not getattr(on[1], 'is_predicate', False):
                    viol('negate-kind', {'input': text, 'result': type(on[1]).__name__}, feats)
                else:
                    from hpl.ast import Not
                    value_check('negate-value', p.condition, envs, on[1].condition, envs,
                                {'input': text, 'negated': str(on[1])[:200], 'expected': 'logical negation'},
                                feats) if False else None
                    # compare not(eval(p)) with eval(negate(p)): build the reference through evaluation
                    _negate_check(ctx, p, on[1], envs, text, feats, viol)
                    if n % 2 == 0:
                        # history: negate a predicate derived (but()) from the one just negated
                        for label, p2 in S.derive_with_but(p, 1):
                            on2 = hplapi.outcome(p2.negate)
                            ctx.count('derived_negate_judged')
                            if on2[0] == 'ok' and getattr(on2[1], 'is_predicate', False) and not getattr(on2[1], 'is_vacuous', False) \
                                    and not getattr(p2, 'is_vacuous', False):
                                _negate_check(ctx, p2, on2[1], envs, f'{text}  -- then but() [{label}]: {str(p2)[:160]}',
                                              feats | {'shape:derived-with-but'}, viol)
                # join with a second predicate over the same context
                tg = gen.Typed(rng, this=case.this, aliases=case.aliases, maxdepth=2)
                qe = tg.bool(2)
                if A.renderable(qe):
                    oq = hplapi.outcome(PC.parse, A.render_expr(qe))
                    if oq[0] == 'ok':
                        q = oq[1]
                        feats = A.features(case.e) | A.features(qe) | {'api:join'}
                        ctx.begin_case(feats)
                        oj = hplapi.outcome(p.join, q)
                        ctx.evaluation('join:' + A.shape(case.e) + '&' + A.shape(qe), True)
                        ctx.count('join_judged')
                        if oj[0] != 'ok':
                            if isinstance(oj[1], TypeError):
                                ctx.skip('join-type-clash')
                            else:
                                viol('join-raises', {'p': text, 'q': A.render_expr(qe), 'error': type(oj[1]).__name__}, feats)
                        else:
                            _join_check(ctx, p, q, oj[1], envs, text, A.render_expr(qe), feats, viol)
                # vacuous identities / annihilators
                for vac, name in ((HplVacuousTruth(), 'truth'), (HplContradiction(), 'contradiction')):
                    ctx.begin_case({'api:join'})
                    for a, b, label in ((p, vac, f'p.join({name})'), (vac, p, f'{name}.join(p)')):
                        oj = hplapi.outcome(a.join, b)
                        ctx.evaluation('joinvac:' + label, False)
                        ctx.count('join_vacuous_judged')
                        if oj[0] != 'ok':
                            viol('join-raises', {'p': text, 'case': label, 'error': type(oj[1]).__name__}, {'api:join'})
                            continue
                        r = oj[1]
                        if name == 'truth':
                            if monitors.snapshot(r, with_meta=False) != monitors.snapshot(p, with_meta=False):
                                viol('join-identity', {'p': text, 'case': label, 'result': str(r)[:160]}, {'api:join'})
                        else:
                            if type(r).__name__ != 'HplContradiction':
                                viol('join-annihilator', {'p': text, 'case': label, 'result': str(r)[:160]}, {'api:join'})
                    on = hplapi.outcome(vac.negate)
                    want = 'HplContradiction' if name == 'truth' else 'HplVacuousTruth'
                    if on[0] != 'ok' or type(on[1]).__name__ != want:
                        viol('negate-vacuous', {'case': name, 'result': repr(on[1])[:100]}, {'api:negate'})
            else:
                ctx.skip('rejected:' + type(o[1]).__name__)

        # ---------------- replace this -> var ---------------------------------------------------
        t = gen.pick(rng, (gen.BOOL, gen.BOOL, gen.NUM, gen.STR))
        case = S.random_case(rng, t, maxdepth=rng.randrange(1, 5), n_aliases=rng.choice((0, 0, 1)))
        as_pred = t == gen.BOOL and rng.random() < 0.4
        if A.renderable(case.e) and A.has_this(case.e):
            text = A.render_expr(case.e)
            o = hplapi.outcome((PC if as_pred else PE).parse, text)
            if o[0] == 'ok' and not (as_pred and getattr(o[1], 'is_vacuous', False)):
                h = o[1]
                fresh = 'Q'
                feats = A.features(case.e) | {'api:replace_this_with_var'}
                ctx.begin_case(feats)
                orr = hplapi.outcome(replace_this_with_var, h, fresh)
                occ = slots_of(case.e, lambda x: x[0] == 'this')
                note_slots(case.e, lambda x: x[0] == 'this')
                ctx.evaluation('t2v:' + A.shape(case.e), any(d >= 2 for _, _, d in occ))
                ctx.count('this_to_var_judged')
                if orr[0] != 'ok':
                    viol('replace-raises', {'input': text, 'api': 'replace_this_with_var', 'error': type(orr[1]).__name__,
                                            'message': str(orr[1])[:160]}, feats)
                else:
                    r = orr[1]
                    hin = h.condition if as_pred else h
                    hout = r.condition if as_pred else r
                    if as_pred != bool(getattr(r, 'is_predicate', False)):
                        viol('replace-kind', {'input': text, 'result': type(r).__name__}, feats)
                    elif S.hpl_has_this(hout):
                        viol('replace-incomplete', {'input': text, 'result': str(r)[:200]}, feats)
                    else:
                        envs = S.envs_for(rng, case, B['envs'])
                        envs_out = [E.Env(None, dict(e.aliases, **{fresh: e.this})) for e in envs]
                        value_check('replace-value', hin, envs, hout, envs_out,
                                    {'input': text, 'api': 'replace_this_with_var', 'result': str(r)[:200]}, feats)
                        # inverse law
                        ob = hplapi.outcome(replace_var_with_this, r, fresh)
                        ctx.count('inverse_judged')
                        if ob[0] != 'ok':
                            viol('replace-raises', {'input': str(r)[:200], 'api': 'replace_var_with_this',
                                                    'error': type(ob[1]).__name__}, feats)
                        else:
                            _inverse_check(h, r, ob[1], text, feats, viol)

        # ---------------- replace var -> this (expressions over aliases only) -------------------
        names = list(gen.ALIASES)
        rng.shuffle(names)
        sch = gen.random_schema(rng, depth=1)
        others = {names[1]: gen.random_schema(rng, depth=1)} if rng.random() < 0.4 else {}
        al = dict(others)
        al[names[0]] = sch
        tg = gen.Typed(rng, this=None, aliases=al, maxdepth=rng.randrange(1, 5))
        t = gen.pick(rng, (gen.BOOL, gen.BOOL, gen.NUM))
        e = tg.prim(t, tg.maxdepth)
        if A.renderable(e) and names[0] in A.all_vars(e):
            text = A.render_expr(e)
            as_pred = t == gen.BOOL and rng.random() < 0.4
            o = hplapi.outcome((PC if as_pred else PE).parse, text)
            if o[0] == 'ok' and not (as_pred and getattr(o[1], 'is_vacuous', False)):
                h = o[1]
                feats = A.features(e) | {'api:replace_var_with_this'} | bare_alias_features(e)
                ctx.begin_case(feats)
                orr = hplapi.outcome(replace_var_with_this, h, names[0])
                occ = slots_of(e, lambda x: x == A.var(names[0]))
                note_slots(e, lambda x: x == A.var(names[0]))
                ctx.evaluation('v2t:' + A.shape(e), any(d >= 2 for _, _, d in occ))
                ctx.count('var_to_this_judged')
                if orr[0] != 'ok':
                    viol('replace-raises', {'input': text, 'api': 'replace_var_with_this', 'error': type(orr[1]).__name__,
                                            'message': str(orr[1])[:160]}, feats)
                else:
                    r = orr[1]
                    hin = h.condition if as_pred else h
                    hout = r.condition if as_pred else r
                    if names[0] in S.hpl_all_var_names(hout):
                        viol('replace-incomplete', {'input': text, 'result': str(r)[:200]}, feats)
                    else:
                        vals = gen.valuations(rng, None, al, B['envs'])
                        envs = [E.Env(None, v['aliases']) for v in vals]
                        envs_out = [E.Env(v['aliases'][names[0]], {k: x for k, x in v['aliases'].items() if k != names[0]})
                                    for v in vals]
                        value_check('replace-value', hin, envs, hout, envs_out,
                                    {'input': text, 'api': 'replace_var_with_this', 'alias': names[0],
                                     'result': str(r)[:200]}, feats)
                        ob = hplapi.outcome(replace_this_with_var, r, names[0])
                        ctx.count('inverse_judged')
                        if ob[0] == 'ok':
                            _inverse_check(h, r, ob[1], text, feats, viol)
                        elif ob[0] != 'ok':
                            viol('replace-raises', {'input': str(r)[:200], 'api': 'replace_this_with_var',
                                                    'error': type(ob[1]).__name__}, feats)

        # ---------------- events: t as A {f}  ==  t {f[@A := this]} -----------------------------
        sch = gen.random_schema(rng, depth=1)
        tg = gen.Typed(rng, this=sch, aliases={}, maxdepth=rng.randrange(1, 4))
        f = tg.predicate()
        if A.renderable(f):
            alias = gen.pick(rng, gen.ALIASES)
            via = gen._via_alias(f, alias, rng)
            if rng.random() < 0.3:
                via = A.replace_this(f, A.var(alias)) if not any(x[0] == 'index' and x[1] == A.THIS for x in A.walk(f)) else via
            t1 = A.render_prop(('prop', (), ('scope', 'globally', None, None), ('pat', 'no', ('ev', 'a', alias, via), None, None)))
            t2 = A.render_prop(('prop', (), ('scope', 'globally', None, None), ('pat', 'no', ('ev', 'a', None, f), None, None)))
            o1, o2 = hplapi.outcome(PP.parse, t1), hplapi.outcome(PP.parse, t2)
            feats = A.features(f) | {'api:event-alias'}
            ctx.begin_case(feats)
            if o1[0] == 'ok' and o2[0] == 'ok':
                e1, e2 = o1[1].pattern.behaviour, o2[1].pattern.behaviour
                ctx.evaluation('ev:' + A.shape(via), alias in A.all_vars(via))
                ctx.count('events_judged')
                if monitors.snapshot(e1.predicate, with_meta=False) != monitors.snapshot(e2.predicate, with_meta=False):
                    viol('event-alias-rewrite', {'with_alias': t1, 'direct': t2, 'stored': str(e1.predicate)[:200]}, feats)
                if alias in e1.external_references():
                    viol('event-alias-external', {'with_alias': t1, 'refs': sorted(e1.external_references())}, feats)
                if n % 200 == 0:
                    ctx.sample({'with_alias': t1, 'direct': t2, 'stored_predicate': str(e1.predicate)[:200]})
                # the same event through the other construction routes: class constructor, but(predicate=...),
                # but(alias=...), replace_var_reference
                from hpl.ast import HplSimpleEvent
                from hpl.ast.events import EventType
                raw = hplapi.outcome(hplapi.build_predicate, via)
                if raw[0] == 'ok' and not getattr(raw[1], 'is_vacuous', False):
                    direct_snap = monitors.snapshot(e2.predicate, with_meta=False, with_types=False)
                    routes = {
                        'constructor': lambda: HplSimpleEvent('a', raw[1], EventType.PUBLISH, alias=alias),
                        'publish': lambda: HplSimpleEvent.publish('a', predicate=raw[1], alias=alias),
                        'but-predicate': lambda: e1.but(predicate=hplapi.build_predicate(via)),
                        'but-alias': lambda: HplSimpleEvent.publish('a', predicate=hplapi.build_predicate(via)).but(alias=alias),
                    }
                    for rname, thunk in routes.items():
                        if rname == 'but-alias' and alias in A.all_vars(via) and False:
                            continue
                        oe = hplapi.outcome(thunk)
                        ctx.evaluation('evroute:' + rname, False)
                        ctx.count('event_routes_judged')
                        if oe[0] != 'ok':
                            if rname == 'but-alias':
                                continue  # an event without the alias that references it may be rejected
                            viol('event-alias-rewrite', {'route': rname, 'with_alias': t1, 'error': hplapi.exc_class(oe)}, feats)
                            continue
                        ev = oe[1]
                        if monitors.snapshot(ev.predicate, with_meta=False, with_types=False) != direct_snap:
                            viol('event-alias-rewrite', {'route': rname, 'with_alias': t1, 'direct': t2,
                                                         'stored': str(ev.predicate)[:200]}, feats)
                        elif alias in ev.predicate.external_references() or alias in ev.external_references():
                            viol('event-alias-external', {'route': rname, 'with_alias': t1}, feats)
            elif hplapi.exc_class(o1) != hplapi.exc_class(o2):
                viol('event-alias-rewrite', {'with_alias': t1, 'direct': t2, 'outcomes': [hplapi.exc_class(o1), hplapi.exc_class(o2)]}, feats)
    ctx.count('slots_filled', len(seen_slots))


def bare_alias_features(e):
    for x in A.walk(e):
        if x[0] == 'call' and any(a[0] == 'var' for a in x[2]):
            return {'shape:bare-alias-argument'}
    return set()


def _inverse_check(h, there, back, text, feats, viol):
    if monitors.snapshot(back, with_meta=False, with_types=False) != monitors.snapshot(h, with_meta=False, with_types=False):
        viol('replace-not-inverse', {'input': text, 'there': str(there)[:200], 'back': str(back)[:200]}, feats)
    elif monitors.snapshot(back, with_meta=False) != monitors.snapshot(h, with_meta=False):
        viol('replace-inverse-types-differ', {'input': text, 'there': str(there)[:200], 'back': str(back)[:200],
                                             'note': 'same structure, different stored type sets'}, feats)


def _negate_check(ctx, p, np_, envs, text, feats, viol):
    readings = S.readings_for(p.condition, np_.condition)
    fin = S.compile_all(p.condition, True, readings)
    fout = S.compile_all(np_.condition, False, readings)
    judged = 0
    for env in envs:
        for f1, f2 in zip(fin, fout):
            st, v = E.run(f1, env)
            if st != 'ok' or not isinstance(v, bool):
                ctx.skip(st if st != 'ok' else 'non-boolean')
                break
            st2, v2 = E.run(f2, env)
            if st2 in ('fragile', 'ambiguous'):
                break
            judged += 1
            if st2 != 'ok' or v2 is not (not v):
                viol('negate-value', {'input': text, 'negated': str(np_)[:200], 'env': S.env_repr(env),
                                      'input_value': v, 'negated_value': repr((st2, v2))}, feats)
                ctx.count('valuations_judged', judged)
                return
            break
    ctx.count('valuations_judged', judged)


def _join_check(ctx, p, q, j, envs, tp, tq, feats, viol):
    if not getattr(j, 'is_predicate', False):
        viol('join-kind', {'p': tp, 'q': tq, 'result': type(j).__name__}, feats)
        return
    readings = S.readings_for(p.condition, q.condition, j.condition)
    fp = S.compile_all(p.condition, True, readings)
    fq = S.compile_all(q.condition, True, readings)
    fj = S.compile_all(j.condition, False, readings)
    judged = 0
    for env in envs:
        st, a = E.run(fp[0], env)
        st1, b = E.run(fq[0], env)
        if st != 'ok' or st1 != 'ok':
            ctx.skip(st if st != 'ok' else st1)
            continue
        st2, c = E.run(fj[0], env)
        if st2 in ('fragile', 'ambiguous'):
            continue
        judged += 1
        if st2 != 'ok' or c is not (a and b):
            viol('join-value', {'p': tp, 'q': tq, 'joined': str(j)[:200], 'env': S.env_repr(env),
                                'p_value': a, 'q_value': b, 'joined_value': repr((st2, c))}, feats)
            break
    ctx.count('valuations_judged', judged)
