"""C14 - rewriting functions are total on valid inputs."""
from .. import absyn as A
from .. import gen, hplapi, semantic as S, shrink
from ..model import eval as E

ID = 'C14'
LEVEL = 'exploration'
TECHNIQUE = ('runtime monitoring: exception classifier and result-kind postconditions around the real simplify, '
             'split_and, refactor_reference, replace_this_with_var, replace_var_with_this and canonical_form, driven '
             'on every accepted generated input; licences for the permitted failures computed by the reference '
             'evaluator')
RULE = ('Inputs: every built-in function x argument shape {literal, reference, set, range with literal bounds, range '
        'with reference bounds, nested call} x arities 1-4 (API-built where the grammar has no syntax), comparisons '
        'and connectives with a literal or constant as first operand (small-scope, <= 2 operators), random typed '
        'expressions and predicates to depth 5, and properties of every scope x pattern x width cell. Each accepted '
        'input is passed to every applicable rewriting function; the outcome must be a result of the documented kind '
        'or a licensed failure. Non-trivial = the function returned an object different from its input or raised; '
        'distinct = (api, input shape).')
RULE_ADDED = " Since the seeding rounds: constant predicates in split positions, every operator x operand-kind pair the parser accepts, constant-power grid, aggregates over ranges of 10..10^18 integers, top-level ranges/sets/arrays (bounds equal, equal after folding, reversed), exact integer folds between 2**1024 and the folding limit; simplify's result type must lie inside the input type."
ASSUMPTIONS = [
    'simplify may raise only when a reference-free subterm is undefined or a divisor is zero on the whole grid; '
    'split_and may raise ValueError only when the input is false on the whole grid; a TypeError from a replacement '
    'on a predicate is not judged when the input already mentions the target alias (coincidence possible)',
]
FLOORS = {
    'quick': {'evaluations': 15000, 'distinct_nontrivial': 3000, 'api:simplify': 3000, 'api:split_and': 2500,
              'api:refactor_reference': 2500, 'api:replace_this_with_var': 2500, 'api:replace_var_with_this': 2500,
              'api:canonical_form': 800, 'function_grid_cells': 300, 'multiarg_calls': 150},
    'thorough': {'evaluations': 400000, 'distinct_nontrivial': 40000, 'api:simplify': 120000,
                 'api:split_and': 50000, 'api:refactor_reference': 50000, 'api:replace_this_with_var': 50000,
                 'api:replace_var_with_this': 50000, 'api:canonical_form': 20000, 'function_grid_cells': 300,
                 'multiarg_calls': 6000},
}
BUDGET = {'quick': {'random': 10000, 'props': 4000, 'grid_reps': 2, 'ss_fills': 2},
          'thorough': {'random': 900000, 'props': 300000, 'grid_reps': 100, 'ss_fills': 40}}
TIMEOUT = {'quick': 900, 'thorough': 7200}

THIS = ('msg', {'x': gen.NUM, 'y': gen.NUM, 'p': gen.BOOL, 's': gen.STR, 'xs': ('arr', gen.NUM, -1),
                'bs': ('arr', gen.BOOL, -1), 'm': ('msg', {'x': gen.NUM, 'y': gen.NUM, 'z': gen.NUM, 'w': gen.NUM}, {})}, {})
ARITIES = {'log': (2,), 'atan2': (2,), 'max': (1, 2, 3, 4), 'min': (1, 2, 3, 4), 'gcd': (1, 2, 3, 4),
           'roll': (1, 4), 'pitch': (1, 4), 'yaw': (1, 4)}
ARG_SHAPES = ('literal', 'negative-literal', 'reference', 'alias-reference', 'set', 'set-with-refs', 'range-literal',
              'range-reference', 'range-reversed', 'nested-call', 'message', 'string', 'boolean', 'const')


def arg_of(shape, rng):
    if shape == 'literal':
        return A.num(gen.pick(rng, ('0', '1', '2', '10', '0.5', '6', '4')))
    if shape == 'negative-literal':
        return A.neg(A.num(gen.pick(rng, ('1', '2', '0.5'))))
    if shape == 'reference':
        return gen.pick(rng, (A.fld('x'), A.fld('xs'), ('index', A.fld('xs'), A.num('0'))))
    if shape == 'alias-reference':
        return gen.pick(rng, (('field', A.var('A'), 'x'), ('field', A.var('A'), 'xs')))
    if shape == 'set':
        return ('set', tuple(A.num(gen.pick(rng, ('1', '2', '3', '4', '6'))) for _ in range(rng.randrange(1, 4))))
    if shape == 'set-with-refs':
        return ('set', (A.num('4'), A.fld('x'), A.num('6'), A.fld('y'))[:rng.randrange(2, 5)])
    if shape == 'range-literal':
        return ('range', A.num('1'), A.num(gen.pick(rng, ('1', '3', '5'))), rng.random() < 0.3, rng.random() < 0.3)
    if shape == 'range-reference':
        return ('range', gen.pick(rng, (A.fld('x'), A.num('0'))), gen.pick(rng, (A.fld('y'), A.num('3'), A.fld('x'))),
                rng.random() < 0.3, rng.random() < 0.3)
    if shape == 'range-reversed':
        return ('range', A.num('3'), A.num('1'), False, False)
    if shape == 'nested-call':
        return ('call', gen.pick(rng, ('abs', 'len', 'max', 'int', 'floor')), (gen.pick(rng, (A.fld('x'), A.fld('xs'))),))
    if shape == 'message':
        return gen.pick(rng, (A.fld('m'), A.var('A')))
    if shape == 'string':
        return gen.pick(rng, (A.string('a'), A.string('12'), A.fld('s')))
    if shape == 'boolean':
        return gen.pick(rng, (A.boolean(True), A.fld('p')))
    if shape == 'const':
        return ('const', gen.pick(rng, A.CONSTS))
    raise ValueError(shape)


def _bare_alias(e, alias):
    """is @alias used other than as the root of a field access (an alias denotes a message)"""
    def rec(x, parent):
        if x == A.var(alias) and not (parent is not None and parent[0] == 'field' and parent[1] == x):
            return True
        return any(rec(k, x) for k in A.children(x))
    return rec(e, None)


def _undefined_everywhere(cond, envs):
    f = E.compile_expr(cond, True)
    for env in envs:
        if E.run(f, env)[0] == 'ok':
            return False
    return True


def outcome_kind(api, hin, o):
    """None if the outcome has the documented kind, else a description"""
    if o[0] != 'ok':
        return None
    r = o[1]
    is_pred = bool(getattr(hin, 'is_predicate', False))
    if api in ('simplify', 'replace_this_with_var', 'replace_var_with_this'):
        if is_pred:
            return None if getattr(r, 'is_predicate', False) else f'predicate in, {type(r).__name__} out'
        if not getattr(r, 'is_expression', False):
            return f'expression in, {type(r).__name__} out'
        if api == 'simplify' and not (r.data_type & hin.data_type):
            return f'type {hin.data_type} in, {r.data_type} out'
        if api == 'simplify' and (r.data_type | hin.data_type) != hin.data_type:
            # "of the same type": the result may be more definite than the input, never wider
            return f'type {hin.data_type} in, wider type {r.data_type} out'
        return None
    if api == 'split_and':
        if not isinstance(r, list):
            return f'{type(r).__name__} instead of a list'
        for x in r:
            if not getattr(x, 'is_expression', False) or not x.can_be_bool:
                return f'list element {type(x).__name__} is not a boolean expression'
        return None
    if api == 'refactor_reference':
        if not isinstance(r, tuple) or len(r) != 2:
            return f'{type(r).__name__} instead of a pair'
        for x in r:
            ok = getattr(x, 'is_predicate', False) if is_pred else getattr(x, 'is_expression', False)
            if not ok:
                return f'pair element {type(x).__name__} has the wrong kind'
        return None
    if api == 'canonical_form':
        if not isinstance(r, list) or not r:
            return f'{type(r).__name__} (len {len(r) if hasattr(r, "__len__") else "?"}) instead of a non-empty list'
        for x in r:
            if type(x).__name__ != 'HplProperty':
                return f'list element {type(x).__name__} is not a property'
        return None
    return None


def run(ctx):
    from hpl import rewrite as RW

    rng = ctx.rng
    B = BUDGET[ctx.tier]
    PE, PC, PP = hplapi.parser('expression'), hplapi.parser('condition'), hplapi.parser('property')
    grid_envs = [E.Env({'x': x, 'y': y, 'p': p, 's': 'a', 'xs': xs, 'bs': [p], 'm': {'x': 1, 'y': 0, 'z': 0, 'w': 1}},
                       {'A': {'x': y, 'xs': xs, 'y': x, 'p': p}})
                 for x in (0, 1, 2) for y in (0, 1, -1) for p in (True, False) for xs in ([], [1, 2])]

    def licence(api, hin, exc, envs, abs_e):
        cond = hin.condition if getattr(hin, 'is_predicate', False) else hin
        if api == 'simplify':
            return E.closed_subterm_undefined(cond) or S.divisor_zero_everywhere(cond, envs)
        if api == 'split_and' and type(exc).__name__ == 'ValueError':
            f = E.compile_expr(cond, True)
            for env in envs:
                st, v = E.run(f, env)
                if st == 'ok' and v is True:
                    return False
            return True
        return False

    def apply_all(hin, abs_e, envs, sig, extra_feats=(), aliases=('A',), text=None, remake=None):
        is_pred = bool(getattr(hin, 'is_predicate', False))
        cond = hin.condition if is_pred else hin
        if S.power_bomb(cond, astronomical_only=True):
            ctx.skip('power-too-large-to-fold')
            return
        calls = [('simplify', (hin,))]
        if cond.can_be_bool:
            calls.append(('split_and', (hin,)))
            for a in aliases:
                calls.append(('refactor_reference', (hin, a)))
        bound = S.hpl_bound_names(cond)
        fresh = 'Q9'
        if fresh not in bound:
            calls.append(('replace_this_with_var', (hin, fresh)))
        for a in aliases:
            if a not in bound:
                calls.append(('replace_var_with_this', (hin, a)))
                if rng.random() < 0.3:
                    calls.append(('replace_this_with_var', (hin, a)))
        for api, args in calls:
            feats = set(A.features(abs_e)) | {'api:' + api} | set(extra_feats)
            ctx.begin_case(feats)
            o = hplapi.outcome(getattr(RW, api), *args)
            changed = o[0] != 'ok' or (o[1] is not hin)
            ctx.evaluation(f'{api}|{sig}', changed)
            ctx.count('api:' + api)
            w = {'api': api, 'input': text or str(hin)[:300], 'args': [a for a in args[1:]]}
            if o[0] != 'ok':
                exc = o[1]
                cls = type(exc).__name__
                if licence(api, hin, exc, envs, abs_e):
                    ctx.count('licensed_failures')
                    continue
                if api.startswith('replace_') and is_pred and cls == 'TypeError' and args[1] in S.hpl_all_var_names(cond):
                    ctx.skip('replacement-coincidence-possible')
                    continue
                if api == 'replace_var_with_this' and cls == 'TypeError' and _bare_alias(abs_e, args[1]):
                    ctx.skip('bare-alias-at-primitive-type')
                    continue
                if api == 'simplify' and S.undefined_everywhere(cond, envs):
                    ctx.skip('input-undefined-on-every-valuation')
                    continue
                w.update(error=cls, message=str(exc)[:200])
                shr = None
                if remake is not None:
                    def shr(api=api, args=args, cls=cls):
                        def fails(c):
                            h2 = remake(c)
                            if h2 is None:
                                return False
                            o2 = hplapi.outcome(getattr(RW, api), h2, *args[1:])
                            return o2[0] != 'ok' and type(o2[1]).__name__ == cls and not licence(api, h2, o2[1], envs, c)
                        m = shrink.shrink_expr(abs_e, fails)
                        h2 = remake(m)
                        return ({'api': api, 'input': str(h2)[:300], 'args': list(args[1:]), 'error': cls},
                                set(A.features(m)) | {'api:' + api, 'exc:' + cls})
                ctx.violation('internal-error', w, feats | {'exc:' + cls}, shr)
                continue
            bad = outcome_kind(api, hin, o)
            if bad:
                w.update(problem=bad)
                ctx.violation('wrong-kind', w, feats)
            if ctx.evaluations % 1500 == 1:
                ctx.sample({'api': api, 'input': w['input'][:160], 'outcome': str(o[1])[:160]})

    def parse_remake(level):
        def remake(c):
            if not A.renderable(c):
                return None
            o = hplapi.outcome((PC if level == 'condition' else PE).parse, A.render_expr(c))
            if o[0] != 'ok' or (level == 'condition' and getattr(o[1], 'is_vacuous', False)):
                return None
            return o[1]
        return remake

    def build_remake(c):
        o = hplapi.outcome(hplapi.build_expr, c)
        return o[1] if o[0] == 'ok' else None

    # A. function x argument-shape x arity grid
    cell = 0
    for fname in gen.ALL_FUNS:
        for ar in ARITIES.get(fname, (1,)):
            for shape in ARG_SHAPES:
                cell += 1
                if not ctx.mine(cell):
                    continue
                ctx.count('function_grid_cells')
                for rep in range(B['grid_reps'] * (2 if ar == 1 else 6)):
                    args = tuple(arg_of(shape if i == 0 or rng.random() < 0.5 else gen.pick(rng, ARG_SHAPES), rng)
                                 for i in range(ar))
                    call = ('call', fname, args)
                    wrapped = gen.pick(rng, (call, ('bin', '>', call, A.num('0')), ('bin', '+', call, A.num('1')),
                                             ('bin', '=', call, A.fld('y')), A.not_(('bin', '<', call, A.fld('x')))))
                    o = hplapi.outcome(hplapi.build_expr, wrapped)
                    if o[0] != 'ok':
                        ctx.skip('grid-rejected:' + type(o[1]).__name__)
                        continue
                    if ar > 1:
                        ctx.count('multiarg_calls')
                    apply_all(o[1], wrapped, grid_envs, f'grid:{fname}/{ar}/{shape}/' + A.shape(wrapped),
                              extra_feats=(f'shape:arity-{ar}', 'shape:arg-' + shape), remake=build_remake)
                    if wrapped[0] == 'bin' and wrapped[1] in ('>', '=') or wrapped[0] == 'un':
                        op = hplapi.outcome(hplapi.build_predicate, wrapped)
                        if op[0] == 'ok' and not getattr(op[1], 'is_vacuous', False):
                            apply_all(op[1], wrapped, grid_envs, f'gridp:{fname}/{ar}/{shape}',
                                      extra_feats=(f'shape:arity-{ar}', 'shape:arg-' + shape))

    # B. literal-first comparisons and connectives (small scope)
    lit_first_num = (A.num('0'), A.num('1'), A.num('2'), ('const', 'PI'), A.fld('x'), ('field', A.var('A'), 'x'))
    lit_first_bool = (A.boolean(True), A.boolean(False), A.fld('p'), ('field', A.var('A'), 'p'))
    idx = 0
    for k in range(1, 3):
        for shp in S.bool_shapes(k, ('=', '!=', '<', '<=', '>', '>=')):
            idx += 1
            if not ctx.mine(idx):
                continue
            for _ in range(B['ss_fills']):
                e = S.fill(shp, rng, lit_first_num, lit_first_bool)
                level = 'condition' if rng.random() < 0.3 else 'expression'
                o = hplapi.outcome((PC if level == 'condition' else PE).parse, A.render_expr(e))
                if o[0] != 'ok' or getattr(o[1], 'is_vacuous', False):
                    ctx.skip('ss-rejected-or-vacuous')
                    continue
                apply_all(o[1], e, grid_envs, 'ss:' + A.shape(e), remake=parse_remake(level))

    # B2. every binary operator x every pair of operand kinds the parser accepts (heterogeneous pairs included:
    # the left operand of `in` and both sides of `=` only have to be primitive)
    leaves = (A.num('2'), A.num('0'), A.string('a'), A.string('2'), A.boolean(True), A.fld('x'), A.fld('s'), A.fld('p'),
              ('set', (A.num('1'), A.num('2'))), ('set', (A.string('a'), A.string('b'))), ('set', (A.fld('x'), A.num('2'))),
              ('range', A.num('1'), A.num('3'), False, False), ('range', A.num('0'), ('bin', '+', A.num('1'), A.num('2')), True, True),
              ('range', A.fld('x'), A.num('3'), False, True), A.fld('xs'), ('call', 'len', (A.fld('xs'),)))
    cellno = 0
    for op in ('and', 'or', 'implies', 'iff', '=', '!=', '<', '<=', '>', '>=', 'in', '+', '-', '*', '/', '**'):
        for a in leaves:
            for b in leaves:
                cellno += 1
                if not ctx.mine(cellno):
                    continue
                e = ('bin', op, a, b)
                o = hplapi.outcome(PE.parse, A.render_expr(e))
                if o[0] != 'ok':
                    ctx.skip('operand-kinds-rejected:' + type(o[1]).__name__)
                    continue
                ctx.count('operand_kind_pairs_accepted')
                apply_all(o[1], e, grid_envs, f'kinds:{op}|{a[0]}:{a[1] if a[0] == "lit" else ""}|{b[0]}:{b[1] if b[0] == "lit" else ""}',
                          extra_feats=('shape:operand-kinds',), remake=parse_remake('expression'))

    # B3. constant powers: every base x exponent pair over boundary values (zero, one, signs, fractions, large)
    bases = ('0', '0.0', '1', '2', '10', '0.5', '1234567890123456789')
    exps = ('0', '1', '2', '0.5', '7', '100', '308', '309', '1023', '1024', '1100', '5000', '20000', '1e3')
    for sa in (False, True):
        for a in bases:
            for sb in (False, True):
                for b in exps:
                    cellno += 1
                    if not ctx.mine(cellno):
                        continue
                    ea = A.neg(A.num(a)) if sa else A.num(a)
                    eb = A.neg(A.num(b)) if sb else A.num(b)
                    pw = ('bin', '**', ea, eb)
                    for e in (pw, ('bin', '>', A.fld('x'), pw), ('bin', '**', ('bin', '-', A.fld('x'), A.fld('x')), eb)):
                        o = hplapi.outcome(PE.parse, A.render_expr(e))
                        if o[0] != 'ok':
                            ctx.skip('power-grid-rejected:' + type(o[1]).__name__)
                            continue
                        ctx.count('constant_powers')
                        apply_all(o[1], e, grid_envs, f'pow:{sa}{a}|{sb}{b}|{e[1]}', extra_feats=('shape:constant-power',),
                                  remake=parse_remake('expression'))

    # B4. aggregates over constant ranges of growing size (folding must stay total: fold, or leave unfolded)
    for fn in ('sum', 'prod', 'len', 'max', 'min'):
        for lo in ('0', '1'):
            for hi in ('10', '170', '171', '400', '1000', '2000', '50000', '1234567890123456789'):
                for ex in (False, True):
                    cellno += 1
                    if not ctx.mine(cellno):
                        continue
                    e = ('bin', '<', A.fld('x'), ('call', fn, (('range', A.num(lo), A.num(hi), ex, ex),)))
                    o = hplapi.outcome(PE.parse, A.render_expr(e))
                    if o[0] != 'ok':
                        continue
                    ctx.count('large_range_aggregates')
                    apply_all(o[1], e, grid_envs, f'bigrange:{fn}|{lo}|{hi}|{ex}', extra_feats=('shape:large-range',),
                              remake=parse_remake('expression'))

    # B4b. exact integer arithmetic around the largest double (2**1024) and the folding limit: products, differences,
    # negations and comparisons of constants whose exact value no double can hold
    big = ('1' + '0' * 200, '1' + '0' * 310, '9' * 400)
    for a in big:
        for b in big:
            for op in ('*', '+', '-', '<', '=', 'in'):
                cellno += 1
                if not ctx.mine(cellno):
                    continue
                rhs = ('set', (A.num(b), A.fld('x'))) if op == 'in' else A.num(b)
                for e in (('bin', op, A.num(a), rhs), ('bin', op, A.neg(A.num(a)), rhs),
                          ('bin', '<', A.fld('x'), ('bin', '*', A.num(a), A.num(b)))):
                    o = hplapi.outcome(PE.parse, A.render_expr(e))
                    if o[0] != 'ok':
                        ctx.skip('big-integer-grid-rejected:' + type(o[1]).__name__)
                        continue
                    ctx.count('big_integer_folds')
                    apply_all(o[1], e, grid_envs, f'bigint:{len(a)}|{len(b)}|{op}|{e[2][0]}', extra_feats=('shape:big-integer',),
                              remake=parse_remake('expression'))

    # B5. string literals with every kind of escape, in the folds that read literal values
    odd = ('a', 'it\\\'s', 'C:\\dev', '\\d+', 'a\\/b', '\\x41', 'q\\"r', 'tab\\there', 'a\\\\b', '50\\% done', '')
    for s1 in odd:
        for s2 in ('its', s1):
            L1, L2 = ('lit', 'str', '"' + s1 + '"'), ('lit', 'str', '"' + s2 + '"')
            for e in (('bin', '=', L1, L2), ('bin', '!=', L1, L2), ('bin', '=', ('call', 'str', (L1,)), A.fld('s')),
                      ('call', 'bool', (L1,)), ('bin', 'in', L1, ('set', (L2, A.fld('s'))))):
                cellno += 1
                if not ctx.mine(cellno):
                    continue
                o = hplapi.outcome(PE.parse, A.render_expr(e))
                if o[0] != 'ok':
                    ctx.skip('escape-grid-rejected:' + type(o[1]).__name__)
                    continue
                ctx.count('escaped_string_folds')
                apply_all(o[1], e, grid_envs, f'esc:{len(s1)}|{s1 == s2}|{e[0]}{e[1]}', extra_feats=('shape:escaped-string',),
                          remake=parse_remake('expression'))

    # B6. expressions that are not of a primitive type at top level: ranges (every exclusion combination; bounds equal,
    # equal after folding, reversed, references), sets (singletons, duplicates, references), arrays, the message
    one = A.num('1')
    bounds = ((one, one), (A.num('0'), A.num('0')), (A.fld('x'), A.fld('x')), (A.num('2'), ('bin', '+', one, one)),
              (('bin', '+', A.fld('x'), A.num('0')), ('bin', '*', A.fld('x'), one)), (A.neg(A.neg(A.fld('y'))), A.fld('y')),
              (one, A.num('1.0')), (one, A.num('3')), (A.num('3'), one), (A.fld('x'), A.fld('y')),
              (('bin', '-', A.fld('x'), A.fld('x')), ('call', 'len', (A.fld('xs'),))))
    tops = [('range', lo, hi, exlo, exhi) for lo, hi in bounds for exlo in (False, True) for exhi in (False, True)]
    tops += [('set', (one,)), ('set', (one, one)), ('set', (A.fld('x'),)), ('set', (A.fld('x'), A.fld('x'))),
             ('set', (('bin', '+', one, one), A.num('2'))), ('set', (A.string('a'), A.boolean(True))), A.fld('xs'), A.fld('bs'),
             A.fld('m'), ('field', A.var('A'), 'xs'), ('this',)]
    for e in tops:
        cellno += 1
        if not ctx.mine(cellno):
            continue
        o = hplapi.outcome(PE.parse, A.render_expr(e)) if A.renderable(e) else ('raise', ValueError())
        if o[0] != 'ok':
            o = hplapi.outcome(hplapi.build_expr, e)
        if o[0] != 'ok':
            ctx.skip('top-level-compound-rejected:' + type(o[1]).__name__)
            continue
        ctx.count('top_level_compounds')
        apply_all(o[1], e, grid_envs, f'top:{e[0]}|{A.shape(e)}|{e[3:] if e[0] == "range" else ""}',
                  extra_feats=('shape:top-level-compound',), remake=build_remake)

    # C. random typed expressions and predicates
    for n in range(ctx.share(B['random'])):
        t = gen.pick(rng, (gen.BOOL, gen.BOOL, gen.NUM, gen.STR))
        case = S.random_case(rng, t, maxdepth=rng.randrange(1, 6), bias='simplify' if n % 2 else 'plain')
        if not A.renderable(case.e):
            ctx.skip('not-renderable')
            continue
        level = 'condition' if (t == gen.BOOL and rng.random() < 0.4) else 'expression'
        o = hplapi.outcome((PC if level == 'condition' else PE).parse, A.render_expr(case.e))
        if o[0] != 'ok' or getattr(o[1], 'is_vacuous', False):
            ctx.skip('rejected-or-vacuous')
            continue
        envs = S.envs_for(rng, case, 12)
        apply_all(o[1], case.e, envs, 'r:' + A.shape(case.e), aliases=tuple(case.aliases) or ('A',),
                  remake=parse_remake(level))

    # D. properties -> canonical_form
    cellno = 0
    for n in range(ctx.share(B['props'])):
        sk = gen.SCOPES[n % 4]
        pk = gen.PATTERNS[(n // 4) % 5]
        pg = gen.PropGen(rng, maxdepth=rng.randrange(1, 3), max_width=rng.choice((1, 2, 4)), kw_names=0.05)
        p, _, _ = pg.make(scope_kind=sk, pat_kind=pk, n=n)
        const_pred = None
        if n % 5 == 0:
            # constant predicates (contradictions, tautologies) on one or all alternatives of one position
            pos = A.prop_positions(p)
            which = gen.pick(rng, sorted(pos))
            const_pred = gen.pick(rng, (A.boolean(False), A.boolean(False), A.boolean(True), A.not_(A.boolean(True)),
                                        ('bin', '=', A.num('1'), A.num('2'))))
            alts = list(A.simple_events(pos[which]))
            hit = range(len(alts)) if rng.random() < 0.6 else [rng.randrange(len(alts))]
            for i in hit:
                alts[i] = ('ev', alts[i][1], alts[i][2], const_pred)
            events = dict(pos)
            events[which] = alts[0] if pos[which][0] != 'disj' else ('disj', tuple(alts))
            p = gen.assemble(p[2][1], p[3][1], events, p[3][4], p[1])
            ctx.count('constant_predicate_properties')
        text = A.render_prop(p)
        o = hplapi.outcome(PP.parse, text)
        feats = {'api:canonical_form', 'shape:' + sk, 'shape:' + pk}
        if const_pred is not None:
            feats.add('shape:constant-predicate')
        if A.partial_alias_dependency(p):
            feats.add('shape:alias-bound-in-some-alternatives')
        ctx.begin_case(feats)
        if o[0] != 'ok':
            ctx.skip('property-rejected:' + type(o[1]).__name__)
            continue
        oc = hplapi.outcome(RW.canonical_form, o[1])
        ctx.evaluation('cf:' + A.prop_shape(p), oc[0] != 'ok' or len(oc[1]) != 1 or oc[1][0] is not o[1])
        ctx.count('api:canonical_form')
        if oc[0] != 'ok':
            ctx.violation('internal-error', {'api': 'canonical_form', 'input': text, 'error': type(oc[1]).__name__,
                                             'message': str(oc[1])[:200]}, feats | {'exc:' + type(oc[1]).__name__})
            continue
        bad = outcome_kind('canonical_form', o[1], oc)
        if bad:
            ctx.violation('wrong-kind', {'api': 'canonical_form', 'input': text, 'problem': bad}, feats)
