"""C10 - refactor_reference isolates the alias-dependent part without changing meaning."""
from .. import absyn as A
from .. import gen, hplapi, monitors, semantic as S, shrink
from ..model import eval as E
from ..model import typing as TYB
from . import c09

ID = 'C10'
LEVEL = 'exploration'
TECHNIQUE = ('runtime monitoring: the real refactor_reference() is driven on generated boolean terms with aliases at '
             'every depth; oracle = reference evaluator (f1 and f2 vs f on truth tables x domains incl. empty), own '
             'free-variable walk for alias isolation and variable capture, identity case')
RULE = ('Boolean expressions and predicates with 0-3 aliases placed at every depth and slot (operands, both sides of '
        'implies, quantifier bodies and domains, function arguments, indices): exhaustive propositional+quantifier '
        'grammar over atoms p, q, True, False, @A.b, @A.v > 0, r(@i), @i > @A.v, @i < @A.v, zs[@i] > @A.v (<= 2 connectives fully, 3 sampled in '
        'quick; <= 3 fully in thorough) plus random typed terms; each refactored for every alias present and one '
        'absent alias. Non-trivial = input mentions the alias and f1 is not literally True; distinct = input shape x '
        'alias.')
ASSUMPTIONS = ['reference evaluator of DESIGN.md 4.1', 'identity of f1 with f is recorded but only structural '
               'equality is required (the predicate path legitimately re-wraps the unchanged condition)']
FLOORS = {
    'quick': {'evaluations': 8000, 'pairs_judged': 8000, 'distinct_nontrivial': 600, 'valuations_judged': 80000,
              'alias_present': 4000, 'alias_absent': 2500, 'split_happened': 600},
    'thorough': {'evaluations': 150000, 'pairs_judged': 150000, 'distinct_nontrivial': 10000,
                 'valuations_judged': 1500000, 'alias_present': 80000, 'alias_absent': 40000, 'split_happened': 10000},
}
BUDGET = {'quick': {'random': 14000, 'k3_sample': 0.03, 'envs': 16},
          'thorough': {'random': 600000, 'k3_sample': 1.0, 'envs': 32}}
TIMEOUT = {'quick': 900, 'thorough': 7200}

THIS = c09.THIS
ALIAS = ('msg', {'b': gen.BOOL, 'v': gen.NUM, 'ys': ('arr', gen.NUM, -1)}, {})
DOMAINS = c09.DOMAINS + (('field', A.var('A'), 'ys'),)


def atoms(scope):
    out = [A.fld('p'), A.fld('q'), A.boolean(True), ('field', A.var('A'), 'b'),
           ('bin', '>', ('field', A.var('A'), 'v'), A.num('0'))]
    for v in scope:
        out.append(('bin', '>', A.var(v), A.num('0')))
        out.append(('bin', '>', A.var(v), ('field', A.var('A'), 'v')))
        # witnesses disjoint from those of `@v > 0` on two-member domains; the variable only inside an index
        out.append(('bin', '<', A.var(v), ('field', A.var('A'), 'v')))
        out.append(('bin', '>', ('index', A.fld('zs'), A.var(v)), ('field', A.var('A'), 'v')))
    return out


def formulas(k, scope=()):
    if k == 0:
        for a in atoms(scope):
            yield a
        return
    for f in formulas(k - 1, scope):
        yield A.not_(f)
    v = 'ij'[len(scope)] if len(scope) < 2 else None
    if v is not None:
        for q in ('forall', 'exists'):
            for f in formulas(k - 1, scope + (v,)):
                yield ('quant', q, v, ('D',), f)
    for op in ('and', 'or', 'implies'):
        for i in range(k):
            for a in formulas(i, scope):
                for b in formulas(k - 1 - i, scope):
                    yield ('bin', op, a, b)


def hot(f):
    """three-connective shapes that are always enumerated: a quantifier directly over a negated binary connective and
    a negated quantifier over a binary connective (where the splitters push negations through binders)"""
    if f[0] == 'quant' and f[4][0] == 'un' and f[4][1] == 'not' and f[4][2][0] == 'bin':
        return True
    if f[0] == 'quant' and f[4][0] == 'bin' and 'quant' in (f[4][2][0], f[4][3][0]):
        return True  # a quantifier over a connective one of whose operands is itself a quantifier
    if f[0] == 'quant' and f[4][0] == 'quant' and f[4][4][0] == 'bin':
        return True  # two nested quantifiers over a connective
    return f[0] == 'un' and f[1] == 'not' and f[2][0] == 'quant' and f[2][4][0] == 'bin'


def fill_domains(e, rng, outer=None, outer_var=None):
    if e == ('D',):
        if outer_var is not None and rng.random() < 0.4:
            # a literal domain that depends on the enclosing quantifier's variable
            return gen.pick(rng, (('set', (A.num('1'), A.var(outer_var))), ('range', A.num('0'), A.var(outer_var), False, False),
                                  ('set', (A.var(outer_var),))))
        if outer is not None and rng.random() < 0.5:
            return outer
        return gen.pick(rng, DOMAINS)
    if e[0] == 'quant':
        d = fill_domains(e[3], rng, outer, outer_var)
        return ('quant', e[1], e[2], d, fill_domains(e[4], rng, d, e[2]))
    ks = A.children(e)
    if not ks:
        return e
    return A.rebuild(e, [fill_domains(k, rng, outer, outer_var) for k in ks])


def grid():
    envs = []
    for p in (True, False):
        for q in (True, False):
            for xs in ([], [0], [0, 1], [1, 2]):
                for b, v in ((True, 0), (False, 1), (True, 2)):
                    envs.append(E.Env({'p': p, 'q': q, 'xs': xs, 'ys': [] if xs else [1], 'x': len(xs), 'zs': [1, 0, 2]},
                                      {'A': {'b': b, 'v': v, 'ys': [v] if b else []}}))
    return envs


def is_true_literal(h):
    return type(h).__name__ == 'HplLiteral' and h.value is True


def judge(case, alias, envs):
    from hpl.rewrite import refactor_reference

    h = case.h
    is_pred = bool(getattr(h, 'is_predicate', False))
    hin = h.condition if is_pred else h
    o = hplapi.outcome(refactor_reference, h, alias)
    if o[0] != 'ok':
        return ('refactor-raises', {'error': type(o[1]).__name__, 'message': str(o[1])[:160]}, False, 0, {})
    res = o[1]
    if not isinstance(res, tuple) or len(res) != 2:
        return ('not-a-pair', {'result': repr(res)[:100]}, False, 0, {})
    f1, f2 = res
    for f in (f1, f2):
        if is_pred and not getattr(f, 'is_predicate', False):
            return ('kind-changed', {'part': type(f).__name__}, False, 0, {})
        if not is_pred and not getattr(f, 'is_expression', False):
            return ('kind-changed', {'part': type(f).__name__}, False, 0, {})
    c1 = f1.condition if is_pred else f1
    c2 = f2.condition if is_pred else f2
    mentions = alias in S.hpl_free_vars(hin) or alias in S.hpl_all_var_names(hin)
    detail = {'f1': str(f1)[:160], 'f2': str(f2)[:160]}
    if not mentions:
        same = monitors.snapshot(c1, with_meta=False) == monitors.snapshot(hin, with_meta=False)
        if not same or not is_true_literal(c2):
            return ('identity-case', detail, False, 0, {})
        if is_pred and type(f2).__name__ != 'HplVacuousTruth':
            return ('identity-case', detail, False, 0, {})
        return (None, dict(detail, identical_object=f1 is h), False, 0, {})
    # alias isolation
    if alias in S.hpl_all_var_names(c1) or f1.contains_reference(alias):
        return ('alias-in-f1', detail, False, 0, {})
    # variable capture
    bound = S.hpl_bound_names(hin)
    free_in = S.hpl_free_vars(hin)
    for name, c in (('f1', c1), ('f2', c2)):
        leaked = (S.hpl_free_vars(c) & bound) - free_in
        if leaked:
            return ('bound-variable-escapes', dict(detail, where=name, variables=sorted(leaked)), False, 0, {})
    split = not is_true_literal(c1)
    readings = S.readings_for(hin, c1, c2)
    cmp = S.compare_values(S.compile_all(hin, True, readings), S.conj_compile([c1, c2], readings), envs)
    if cmp.witness is not None:
        d = dict(cmp.witness)
        d.update(detail)
        return ('not-equivalent', d, split, cmp.judged, cmp.skipped)
    return (None, detail, split, cmp.judged, cmp.skipped)


def run(ctx):
    rng = ctx.rng
    B = BUDGET[ctx.tier]

    def handle(case, aliases_to_try, envs, sig, origin):
        base_feats = A.features(case.e) | {'api:refactor_reference', 'shape:' + origin}
        o = case.parse()
        if o[0] != 'ok':
            ctx.begin_case(base_feats)
            ctx.skip('rejected:' + type(o[1]).__name__)
            return
        for alias in aliases_to_try:
            ctx.begin_case(base_feats)
            kind, detail, split, judged, skipped = judge(case, alias, envs)
            for k, v in skipped.items():
                ctx.skip(k, v)
            present = alias in A.all_vars(case.e)
            ctx.evaluation(f'{sig}|{"present" if present else "absent"}', present and split)
            ctx.count('pairs_judged')
            ctx.count('alias_present' if present else 'alias_absent')
            ctx.count('valuations_judged', judged)
            if split:
                ctx.count('split_happened')
            if ctx.evaluations % 500 == 1:
                ctx.sample({'input': case.text[:200], 'alias': alias, 'f1': detail.get('f1'), 'f2': detail.get('f2'),
                            'valuations_judged': judged, 'verdict': kind or 'ok'})
            if kind is None and ctx.evaluations % 3 == 0:
                import types
                for label, h2 in S.derive_with_but(case.h, 1):
                    k2, d2, s2, j2, sk2 = judge(types.SimpleNamespace(h=h2), alias, envs)
                    ctx.count('derived_judged')
                    ctx.count('valuations_judged', j2)
                    if k2 is not None:
                        w2 = {'input': case.text, 'alias': alias, 'level': case.level,
                              'history': f'refactor_reference(input); input.but(...) [{label}] = {str(h2)[:200]}; refactor_reference(derived)'}
                        w2.update(d2)
                        ctx.violation(k2, w2, base_feats | {'shape:derived-with-but'})
                        break
            if kind is None and present and ctx.evaluations % 4 == 0:
                # history: the alias is replaced away (or introduced) on a tree that was just queried and refactored
                import types
                from hpl import rewrite as RW
                for label, thunk, al2 in (('replace_var_with_this', lambda: RW.replace_var_with_this(case.h, alias), alias),
                                          ('replace_this_with_var', lambda: RW.replace_this_with_var(case.h, 'Qh'), 'Qh')):
                    od = hplapi.outcome(thunk)
                    if od[0] != 'ok' or od[1] is case.h:
                        continue
                    k2, d2, s2, j2, sk2 = judge(types.SimpleNamespace(h=od[1]), al2, envs)
                    ctx.count('derived_by_replacement_judged')
                    if k2 is not None and k2 != 'not-equivalent':
                        # (values are not compared here: the grid binds neither the new variable nor the old alias)
                        w2 = {'input': case.text, 'alias': al2, 'level': case.level,
                              'history': f'refactor_reference(input, {alias}); derived = {label}(input); refactor_reference(derived, {al2})',
                              'derived': str(od[1])[:200]}
                        w2.update(d2)
                        ctx.violation(k2, w2, base_feats | {'shape:derived-by-replacement'})
                        break
            if kind is None:
                continue
            w = {'input': case.text, 'alias': alias, 'level': case.level}
            w.update(detail)

            def shrinker(alias=alias, kind=kind):
                def fails(c):
                    cc = S.Case(c, case.this, case.aliases, case.level)
                    if cc.parse()[0] != 'ok':
                        return False
                    if not TYB.is_well_typed(c, case.this, case.aliases, ('bool',)):
                        return False  # the minimised witness must stay a boolean term
                    return judge(cc, alias, envs)[0] == kind
                m = shrink.shrink_expr(case.e, fails)
                cc = S.Case(m, case.this, case.aliases, case.level)
                cc.parse()
                w2 = {'input': cc.text, 'alias': alias, 'level': case.level}
                w2.update(judge(cc, alias, envs)[1])
                return (w2, A.features(m) | {'api:refactor_reference'})

            ctx.violation(kind, w, base_feats, shrinker)

    envs = grid()
    idx = 0
    for k in range(0, 4):
        for f in formulas(k):
            idx += 1
            if not ctx.mine(idx):
                continue
            if k == 3 and not hot(f) and rng.random() > B['k3_sample']:
                continue
            e = fill_domains(f, rng)
            level = 'predicate' if (rng.random() < 0.25 and A.has_this(e)) else 'expression'
            handle(S.Case(e, THIS, {'A': ALIAS}, level), ('A', 'Z'), envs, 'ss:' + A.shape(e), 'smallscope')
            ctx.count('smallscope_terms')

    for n in range(ctx.share(B['random'])):
        case = S.random_case(rng, gen.BOOL, maxdepth=rng.randrange(2, 6), n_aliases=rng.choice((0, 1, 1, 2, 3)))
        e = case.e
        r = rng.random()
        tg = gen.Typed(rng, this=case.this, aliases=case.aliases, maxdepth=2)
        if r < 0.3:
            e = ('bin', 'and', e, tg.bool(2))
        elif r < 0.5:
            e = A.not_(('bin', gen.pick(rng, ('or', 'implies')), e, tg.bool(2)))
        elif r < 0.58:
            e = A.not_(A.not_(e))
        case.e = e
        if not A.renderable(e):
            ctx.skip('not-renderable')
            continue
        if rng.random() < 0.3 and A.has_this(e):
            case.level = 'predicate'
        names = list(case.aliases) + ['Zz']
        handle(case, names, S.envs_for(rng, case, B['envs']), 'r:' + A.shape(e), 'random')
