"""C01 - parsing builds exactly the tree the grammar assigns to the text."""
import os

from .. import absyn as A
from .. import compare, gen, hplapi, monitors, shrink
from ..model import grammar

ID = 'C01'
LEVEL = 'exploration'
TECHNIQUE = ('runtime monitoring: boundary recorder on the real parser entry points; oracle = field-by-field '
             'comparison with the generating abstract tree + independent token-level recogniser + differential '
             'parser built from the .lark files')
RULE = ('Abstract trees (typed generator over random schemas, small-scope enumeration of operator shapes with '
        'position-distinct leaves, generated properties/specifications) are rendered in three layouts (minimal, '
        'fully parenthesised, random whitespace and redundant parentheses), parsed by the real entry points and '
        'compared field by field with the tree they were rendered from; one token mutant and fusion mutants per '
        'text are judged by an independent recogniser (accept / syntax error). Non-trivial = accepted text with '
        '>= 1 operator or >= 2 events whose AST was compared; distinct = distinct shape signature '
        '(identifiers and literal values erased).')
RULE_ADDED = ' Since the seeding rounds: time bounds must equal the float quotient or the correctly rounded exact quotient (no tolerance); constant predicates; strings with tabs/no-break spaces; FF/CR blanks; the module-level convenience functions parse_* (12 % of the compared trees, all five in one process).'
ASSUMPTIONS = [
    'the documented grammar is my transcription (DESIGN.md Appendix A.1) of the four .lark files and docs/lang.md',
    'names equal to a keyword are not judged; well-formed but ill-typed texts only need to avoid a syntax error',
]
FLOORS = {
    'quick': {'evaluations': 8000, 'trees_compared': 5000, 'distinct_nontrivial': 400, 'mutants_judged': 2500,
              'smallscope_compared': 3000, 'props_compared': 1500},
    'thorough': {'evaluations': 150000, 'trees_compared': 100000, 'distinct_nontrivial': 3000,
                 'mutants_judged': 40000, 'smallscope_compared': 20000, 'props_compared': 20000},
}
BUDGET = {
    'quick': {'typed_exprs': 10000, 'props': 6000, 'specs': 600, 'untyped': 5000, 'fusion': 2500},
    'thorough': {'typed_exprs': 300000, 'props': 160000, 'specs': 20000, 'untyped': 120000, 'fusion': 60000},
}
TIMEOUT = {'quick': 600, 'thorough': 5400}

KW_FOR_PREFIX = sorted(A.KEYWORDS - {'E'}, key=len, reverse=True) + ['E']


def kw_prefixed(name):
    n = name.lstrip('@/~')
    for kw in KW_FOR_PREFIX:
        if n.startswith(kw) and len(n) > len(kw):
            return True
    return False


def token_features(tokens):
    fs = set()
    for t in tokens:
        if (t[0].isalpha() or t[0] in '@/~_') and t not in A.KEYWORDS:
            if any(kw_prefixed(part) for part in t.split('/') if part):
                fs.add('shape:kw-prefixed-name')
    return fs


def lark_file_grammar():
    """Assemble the grammar from the .lark files the way scripts/build_grammars.py does."""
    from .. import env

    d = os.path.join(env.SRC, 'hpl', 'grammars')
    parts = []
    for name in ('files.lark', 'properties.lark', 'predicates.lark', 'tokens.lark'):
        parts.append(open(os.path.join(d, name), encoding='utf8').read())
    pred = '\n'.join(parts[2:])
    return '\n'.join(parts), pred


class Harness:
    def __init__(self, ctx):
        from hpl.errors import HplSyntaxError
        from hpl.parser import HplParser

        self.ctx = ctx
        self.SyntaxErr = HplSyntaxError
        self.p = {k: hplapi.parser(k) for k in ('specification', 'property', 'predicate', 'condition', 'expression')}
        full, pred = lark_file_grammar()
        self.alt = {
            'property': HplParser.from_grammar(full, start='hpl_property'),
            'expression': HplParser.from_grammar(pred, start='hpl_expression'),
            'specification': HplParser.from_grammar(full, start='hpl_file'),
        }
        self.documented = hplapi.documented_errors()

    def parse(self, level, text):
        self.ctx.count(f'parse_calls:{level}')
        return hplapi.outcome(self.p[level].parse, text)


START = {'specification': 'file', 'property': 'property', 'predicate': 'predicate', 'condition': 'expression',
         'expression': 'expression'}


def layouts(tokens_fn, rng):
    """three renderings: minimal/space, full parens/tight, random parens + random whitespace"""
    out = []
    out.append(A.layout(tokens_fn(A.MIN), style='space'))
    out.append(A.layout(tokens_fn(A.FULL), style='tight'))
    out.append(A.layout(tokens_fn(A.Paren('random', rng, 0.3)), rng, style='random'))
    return out


def judge_positive(H, level, tokens_fn, comparer, sig, nontrivial, abstract, shrinker=None, small=False):
    """Parse three layouts of one abstract tree; compare; returns True if compared."""
    ctx = H.ctx
    rng = ctx.rng
    toks = tokens_fn(A.MIN)
    feats = token_features(toks) | {'api:parse_' + level}
    ctx.begin_case(feats)
    texts = layouts(tokens_fn, rng)
    outs = [H.parse(level, t) for t in texts]
    classes = [hplapi.exc_class(o) for o in outs]
    ctx.evaluation(sig, nontrivial and classes[0] == 'ok')
    ctx.sample({'level': level, 'texts': texts[:3], 'outcome': classes[0]})
    if len(set(classes)) != 1:
        ctx.violation('layout-variance', {'level': level, 'texts': texts, 'outcomes': classes}, feats,
                      shrinker('layout-variance') if shrinker else None)
        return False
    if classes[0] != 'ok':
        exc = outs[0][1]
        if isinstance(exc, H.SyntaxErr):
            ctx.violation('wellformed-rejected', {'level': level, 'text': texts[0], 'error': str(exc)[:200]},
                          feats, shrinker('wellformed-rejected') if shrinker else None)
        else:
            ctx.skip('rejected:' + classes[0])
        return False
    diffs = []
    comparer(outs[0][1], diffs)
    if diffs:
        ctx.violation('tree-mismatch', {'level': level, 'text': texts[0], 'diffs': diffs[:6]}, feats,
                      shrinker('tree-mismatch') if shrinker else None)
        return False
    s0 = monitors.snapshot(outs[0][1])
    for t, o in zip(texts[1:], outs[1:]):
        if monitors.snapshot(o[1]) != s0:
            d2 = []
            comparer(o[1], d2)
            ctx.violation('layout-variance', {'level': level, 'texts': [texts[0], t], 'diffs': d2[:6]}, feats,
                          shrinker('layout-variance') if shrinker else None)
            return False
    ctx.count('trees_compared')
    if small:
        ctx.count('smallscope_compared')
    # differential: parser built from the .lark files (sampled)
    alt = H.alt.get(level)
    if alt is not None and rng.random() < 0.15:
        o2 = hplapi.outcome(alt.parse, texts[0])
        ctx.count('lark_file_parser_compared')
        if hplapi.exc_class(o2) != 'ok' or monitors.snapshot(o2[1]) != s0:
            ctx.violation('grammar-copy-divergence', {'level': level, 'text': texts[0],
                                                     'embedded': 'ok', 'lark_files': hplapi.exc_class(o2)}, feats)
    # the module-level convenience functions are entry points too (all five share one process here, called in
    # whatever order the workload produces)
    if rng.random() < 0.12:
        from hpl import parser as hp
        conv = {'specification': hp.parse_specification, 'property': hp.parse_property, 'predicate': hp.parse_predicate,
                'condition': hp.parse_condition, 'expression': hp.parse_expresion}[level]
        o3 = hplapi.outcome(conv, texts[0])
        ctx.count('convenience_function_compared')
        d3 = []
        if hplapi.exc_class(o3) == 'ok':
            comparer(o3[1], d3)
        if hplapi.exc_class(o3) != 'ok' or d3 or monitors.snapshot(o3[1]) != s0:
            ctx.violation('tree-mismatch', {'level': level, 'text': texts[0], 'entry': 'hpl.parser.' + conv.__name__,
                                            'outcome': hplapi.exc_class(o3), 'diffs': d3[:6]},
                          feats | {'api:convenience-function'})
    return True


def judge_tokens(H, level, tokens, origin):
    """Reject side: the recogniser decides whether a token sequence is well-formed."""
    ctx = H.ctx
    v = grammar.verdict(tokens, START[level])
    if v == 'ambiguous':
        ctx.skip('ambiguous-keyword-as-name')
        return
    if v == 'reject' and any(len(t) > 1 and '/' in t and t[0] != '"' for t in tokens):
        # a channel-name token that landed in an expression reads equally well as a division
        idxs = [i for i, t in enumerate(tokens) if len(t) > 1 and '/' in t and t[0] != '"']
        for chosen in [[i] for i in idxs] + [idxs]:
            alt = []
            for i, t in enumerate(tokens):
                if i in chosen:
                    for j, piece in enumerate(t.split('/')):
                        if j:
                            alt.append('/')
                        if piece:
                            alt.append(piece)
                else:
                    alt.append(t)
            if grammar.verdict(alt, START[level]) != 'reject':
                ctx.skip('ambiguous-channel-name-vs-division')
                return
    feats = token_features(tokens) | {'api:parse_' + level, 'shape:' + origin}
    ctx.begin_case(feats)
    text = A.layout(tokens, style='space')
    o = H.parse(level, text)
    cls = hplapi.exc_class(o)
    ctx.evaluation()
    ctx.count('mutants_judged')
    ctx.count(f'mutants_{v}')
    if v == 'reject':
        if cls == 'ok':
            ctx.violation('illformed-accepted', {'level': level, 'text': text, 'origin': origin}, feats,
                          lambda: _shrink_tokens(H, level, tokens, 'illformed-accepted', origin))
        elif isinstance(o[1], H.SyntaxErr):
            ctx.count('mutants_rejected_with_syntax_error')
        elif isinstance(o[1], H.documented):
            # The transformer runs inside the LALR parse, so a type/sanity error in the viable prefix
            # is raised before the parser reaches the offending token.  The text is still rejected,
            # nothing is "parsed into something else": not judged (see DESIGN.md, C01).
            ctx.skip('illformed-rejected-by-type-or-sanity-error-first')
        else:
            ctx.violation('illformed-wrong-error', {'level': level, 'text': text, 'error': cls, 'origin': origin},
                          feats, lambda: _shrink_tokens(H, level, tokens, 'illformed-wrong-error', origin))
    else:
        if cls != 'ok' and isinstance(o[1], H.SyntaxErr):
            ctx.violation('wellformed-rejected', {'level': level, 'text': text, 'error': str(o[1])[:200],
                                                  'origin': origin}, feats,
                          lambda: _shrink_tokens(H, level, tokens, 'wellformed-rejected', origin))
        elif cls != 'ok' and not isinstance(o[1], H.documented):
            ctx.count('undocumented_error_seen:' + cls)


def _token_verdict(H, level, tokens):
    v = grammar.verdict(tokens, START[level])
    if v == 'ambiguous':
        return None
    o = hplapi.outcome(H.p[level].parse, A.layout(tokens, style='space'))
    cls = hplapi.exc_class(o)
    if v == 'reject':
        if cls == 'ok':
            return 'illformed-accepted'
        if not isinstance(o[1], H.documented):
            return 'illformed-wrong-error'
        return None
    if cls != 'ok' and isinstance(o[1], H.SyntaxErr):
        return 'wellformed-rejected'
    return None


def _shrink_tokens(H, level, tokens, kind, origin):
    toks = shrink.shrink_list(tokens, lambda c: _token_verdict(H, level, c) == kind, max_calls=120)
    return ({'level': level, 'text': A.layout(toks, style='space'), 'origin': origin},
            token_features(toks) | {'api:parse_' + level, 'shape:' + origin})


def expr_shrinker(H, level, e, wrap=None):
    """thunk factory: shrink abstract expr e while the same violation kind persists"""
    def make(kind):
        def thunk():
            def fails(c):
                return _expr_verdict(H, level, c) == kind
            m = shrink.shrink_expr(e, fails)
            toks = _expr_level_tokens(level, m, A.MIN)
            return ({'level': level, 'text': A.layout(toks), 'tree': repr(m)},
                    token_features(toks) | A.features(m) | {'api:parse_' + level})
        return thunk
    return make


def _expr_level_tokens(level, e, pol):
    toks = A.expr_tokens(e, pol)
    if level == 'predicate':
        return ['{'] + toks + ['}']
    return toks


def _expr_comparer(level, e):
    def comparer(h, diffs):
        if level in ('predicate', 'condition'):
            compare.compare_predicate(e, h, diffs, level)
        else:
            compare.compare_expr(e, h, diffs)
    return comparer


def _expr_verdict(H, level, e):
    if not A.renderable(e):
        return None
    toks = _expr_level_tokens(level, e, A.MIN)
    if grammar.verdict(toks, START[level]) != 'accept':
        return None
    texts = [A.layout(toks), A.layout(_expr_level_tokens(level, e, A.FULL), style='tight')]
    outs = [hplapi.outcome(H.p[level].parse, t) for t in texts]
    classes = [hplapi.exc_class(o) for o in outs]
    if len(set(classes)) != 1:
        return 'layout-variance'
    if classes[0] != 'ok':
        return 'wellformed-rejected' if isinstance(outs[0][1], H.SyntaxErr) else None
    diffs = []
    _expr_comparer(level, e)(outs[0][1], diffs)
    if diffs:
        return 'tree-mismatch'
    if monitors.snapshot(outs[0][1]) != monitors.snapshot(outs[1][1]):
        return 'layout-variance'
    return None


def _prop_verdict(H, p):
    toks = A.prop_tokens(p, A.MIN)
    if grammar.verdict(toks, 'property') != 'accept':
        return None
    texts = [A.layout(toks), A.layout(A.prop_tokens(p, A.FULL), style='tight')]
    outs = [hplapi.outcome(H.p['property'].parse, t) for t in texts]
    classes = [hplapi.exc_class(o) for o in outs]
    if len(set(classes)) != 1:
        return 'layout-variance'
    if classes[0] != 'ok':
        return 'wellformed-rejected' if isinstance(outs[0][1], H.SyntaxErr) else None
    diffs = []
    compare.compare_property(p, outs[0][1], diffs)
    if diffs:
        return 'tree-mismatch'
    if monitors.snapshot(outs[0][1]) != monitors.snapshot(outs[1][1]):
        return 'layout-variance'
    return None


def prop_shrinker(H, p):
    def make(kind):
        def thunk():
            m = shrink.shrink_prop(p, lambda c: _prop_verdict(H, c) == kind)
            toks = A.prop_tokens(m)
            return ({'level': 'property', 'text': A.layout(toks)}, token_features(toks) | {'api:parse_property'})
        return thunk
    return make


# ------------------------------------------------------------------------------------------
# small-scope enumeration: every operator shape with position-distinct leaves
# ------------------------------------------------------------------------------------------
def _num_trees(k, memo={}):
    """numeric trees with exactly k operators; leaves are placeholders numbered later"""
    if k in memo:
        return memo[k]
    if k == 0:
        out = [('L',)]
    else:
        out = [A.neg(t) for t in _num_trees(k - 1)]
        for op in A.ARITH_BIN:
            for i in range(k):
                for a in _num_trees(i):
                    for b in _num_trees(k - 1 - i):
                        out.append(('bin', op, a, b))
    memo[k] = out
    return out


def _bool_trees(k, memo={}):
    if k in memo:
        return memo[k]
    out = []
    if k == 0:
        out = [('B',)]
    else:
        out = [A.not_(t) for t in _bool_trees(k - 1)]
        for op in A.BOOL_BIN:
            for i in range(k):
                for a in _bool_trees(i):
                    for b in _bool_trees(k - 1 - i):
                        out.append(('bin', op, a, b))
        for op in ('=', '!=', '<', '<=', '>', '>='):
            for i in range(k):
                for a in _num_trees(i):
                    for b in _num_trees(k - 1 - i):
                        out.append(('bin', op, a, b))
        # quantifier and membership (count as one operator each)
        for b in _bool_trees(k - 1):
            out.append(('quant', 'forall', 'i', ('D',), ('bin', 'and', ('V',), b)))
            out.append(('quant', 'exists', 'i', ('D',), ('bin', 'or', b, ('V',))))
        for a in _num_trees(k - 1):
            out.append(('bin', 'in', a, ('R',)))
    memo[k] = out
    return out


def _label(t, counter):
    """replace placeholders by position-distinct leaves"""
    tag = t[0]
    if tag == 'L':
        counter[0] += 1
        return A.fld('n%d' % counter[0])
    if tag == 'B':
        counter[0] += 1
        return A.fld('b%d' % counter[0])
    if tag == 'V':
        return A.var('i')
    if tag == 'D':
        counter[0] += 1
        return A.fld('xs%d' % counter[0])
    if tag == 'R':
        counter[0] += 1
        return ('range', A.num(str(counter[0])), A.fld('n%d' % (counter[0] + 50)), counter[0] % 2 == 0, counter[0] % 3 == 0)
    ks = A.children(t)
    if not ks:
        return t
    return A.rebuild(t, [_label(k, counter) for k in ks])


def smallscope(maxk):
    idx = 0
    for k in range(0, maxk + 1):
        for t in _bool_trees(k):
            yield idx, k, _label(t, [0])
            idx += 1
        if k >= 1:
            for t in _num_trees(k):
                yield idx, k, _label(t, [0])
                idx += 1


# ------------------------------------------------------------------------------------------
FUSION_PAIRS = None


def fusion_mutants(tokens):
    """Remove the whitespace between a keyword and a following/preceding identifier or number:
    under longest-match lexing the fused run is one token."""
    out = []
    for i in range(len(tokens) - 1):
        a, b = tokens[i], tokens[i + 1]
        a_kw = a in A.KEYWORDS
        b_kw = b in A.KEYWORDS
        if not (a_kw or b_kw):
            continue
        wa = a[-1].isalnum() or a[-1] == '_'
        wb = b[0].isalnum() or b[0] == '_'
        if not (wa and wb):
            continue
        if a[0] == '"' or b[0] == '"' or a[0] == '@':
            continue
        if a[0].isdigit() or a[0] == '.':
            continue  # 3s / 100ms style fusions stay two tokens (number then unit/keyword)
        fused = a + b
        if fused in A.KEYWORDS:
            continue
        out.append(tokens[:i] + [fused] + tokens[i + 2:])
    return out


def run(ctx):
    H = Harness(ctx)
    rng = ctx.rng
    B = BUDGET[ctx.tier]

    # 1. small-scope enumeration of operator shapes (exhaustive up to maxk operators)
    maxk = 3 if ctx.tier == 'quick' else 4
    for idx, k, e in smallscope(maxk):
        if not ctx.mine(idx):
            continue
        level = 'expression'
        judge_positive(H, level, lambda pol, e=e: A.expr_tokens(e, pol), _expr_comparer(level, e),
                       'ss:' + A.shape(e), k >= 1, e, expr_shrinker(H, level, e), small=True)

    # 2. typed random expressions / predicates
    for n in range(ctx.share(B['typed_exprs'])):
        kwn = 0.25 if n % 5 == 0 else 0.0
        sch = gen.random_schema(rng, depth=2, kw_names=kwn)
        al = {}
        if rng.random() < 0.5:
            al[gen.pick(rng, gen.ALIASES)] = gen.random_schema(rng, depth=1, kw_names=kwn)
        tg = gen.Typed(rng, this=sch, aliases=al, maxdepth=rng.randrange(1, 6), small_literals=rng.random() < 0.5)
        t = gen.pick(rng, (gen.BOOL, gen.BOOL, gen.NUM, gen.STR))
        e = tg.prim(t, tg.maxdepth)
        if not A.renderable(e):
            ctx.skip('not-renderable')
            continue
        level = 'expression'
        if t == gen.BOOL:
            level = gen.pick(rng, ('expression', 'predicate', 'condition'))
        judge_positive(H, level, lambda pol, e=e, level=level: _expr_level_tokens(level, e, pol),
                       _expr_comparer(level, e), f'{level[0]}:' + A.shape(e), A.size(e) > 1, e,
                       expr_shrinker(H, level, e))
        toks = _expr_level_tokens(level, e, A.MIN)
        judge_tokens(H, level, gen.mutate_tokens(rng, toks, rng.choice((1, 1, 2))), 'token-mutant')

    # 3. untyped: every derivable text; only "no syntax error" and mutants are judged when ill-typed
    for n in range(ctx.share(B['untyped'])):
        u = gen.Untyped(rng, maxdepth=rng.randrange(1, 5), kw_names=0.0 if n % 3 else 0.3)
        e = u.cond(u.maxdepth)
        level = 'expression'
        judge_positive(H, level, lambda pol, e=e: A.expr_tokens(e, pol), _expr_comparer(level, e),
                       'u:' + A.shape(e), A.size(e) > 1, e, expr_shrinker(H, level, e))
        toks = A.expr_tokens(e)
        judge_tokens(H, level, gen.mutate_tokens(rng, toks, rng.choice((1, 1, 2))), 'token-mutant')

    # 4. properties
    props = []
    for n in range(ctx.share(B['props'])):
        kwn = 0.3 if n % 4 == 0 else 0.0
        pg = gen.PropGen(rng, maxdepth=rng.randrange(1, 4), kw_names=kwn, max_width=rng.choice((2, 3, 5)), const_preds=0.05)
        p, _, _ = pg.make(n=n)
        props.append(p)
        ok = judge_positive(H, 'property', lambda pol, p=p: A.prop_tokens(p, pol),
                            lambda h, d, p=p: compare.compare_property(p, h, d),
                            'p:' + A.prop_shape(p) + '|' + '|'.join(
                                A.shape(ev[3]) if ev[3] else '-' for pos in A.prop_positions(p).values()
                                for ev in A.simple_events(pos))[:200],
                            True, p, prop_shrinker(H, p))
        if ok:
            ctx.count('props_compared')
        toks = A.prop_tokens(p)
        judge_tokens(H, 'property', gen.mutate_tokens(rng, toks, rng.choice((1, 1, 2))), 'token-mutant')

    # 5. specifications
    for n in range(ctx.share(B['specs'])):
        k = rng.randrange(1, 5)
        if len(props) < k:
            break
        ps = [gen.pick(rng, props) for _ in range(k)]
        judge_positive(H, 'specification', lambda pol, ps=ps: A.spec_tokens(ps, pol),
                       lambda h, d, ps=ps: compare.compare_spec(ps, h, d),
                       's:' + '+'.join(A.prop_shape(p) for p in ps), True, ps)
        toks = A.spec_tokens(ps)
        judge_tokens(H, 'specification', gen.mutate_tokens(rng, toks, 1), 'token-mutant')

    # 6. fusion mutants (keyword glued to a neighbouring identifier/number)
    done = 0
    want = ctx.share(B['fusion'])
    tries = 0
    while done < want and props and tries < want * 5:
        tries += 1
        if rng.random() < 0.5:
            p = gen.pick(rng, props)
            level, toks = 'property', A.prop_tokens(p)
        else:
            sch = gen.random_schema(rng, depth=1)
            e = gen.Typed(rng, this=sch, maxdepth=3).bool(3)
            if not A.renderable(e):
                continue
            level, toks = 'expression', A.expr_tokens(e)
        muts = fusion_mutants(toks)
        if not muts:
            continue
        judge_tokens(H, level, gen.pick(rng, muts), 'kw-fusion')
        done += 1
        ctx.count('fusion_mutants')
