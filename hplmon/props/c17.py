"""C17 - schema checking of references is exact."""
from .. import absyn as A
from .. import gen, hplapi
from ..model import schema as SC, typeset

ID = 'C17'
LEVEL = 'fault_enumeration'
TECHNIQUE = ('runtime monitoring with single-fault injection into the inputs: type_check_references and the schema '
             'helpers of hpl.types are driven on generated properties and schemas; oracle = own path resolution over '
             'the dict model of the schema (valid => returns None; exactly one faulty path => an error naming it)')
RULE = ('Random schemas (nested messages, fixed and variable arrays, arrays of messages, constants) x generated '
        'properties whose references are valid, then exactly one fault (unknown field at depth 1-3, field used as array, '
        'array used as message, inferred type excluding the declared type, literal index >= fixed length) placed in '
        'every kind of position (top-level operand, index expression, range bound, set element, function argument, '
        'quantifier domain, quantifier body, through an alias) of every event position and disjunction alternative. '
        'The same contexts with a valid reference must pass. Helpers: leaf_fields, get_type_of, contains_name, '
        'contains_index, integer bounds of UINT8..INT64, constructor rejections. evaluations = schema checks + helper '
        'comparisons; non-trivial = a fault was injected or a nested schema was navigated; distinct = (fault kind, '
        'position kind, event position, schema shape).')
RULE_ADDED = ' Since the seeding rounds: weak first occurrence, two valid schemas in turn, zero lengths, float-spelled indices, fault number-as-compound, shared message tokens, small-scope enumeration of type-token declarations, nested message types that declare constants only; faulty index that is not the last step of its path (arrays of messages: qz[i].f, qz[i].arr[0], qz[1].arr[i]).'
ASSUMPTIONS = ['on failure any of TypeError/IndexError/HplSanityError/KeyError counts as "an error"; its message must '
               'mention the offending field name or index', 'unknown topics, missing alias entries and non-integer '
               'literal indices are caller errors and not judged']
FLOORS = {
    'quick': {'evaluations': 8000, 'distinct_nontrivial': 400, 'valid_passed': 2500, 'faults_judged': 3500,
              'helpers_judged': 1500, 'position:index': 300, 'position:quantifier-domain': 300,
              'fault:unknown-field': 800, 'fault:index-out-of-range': 500},
    'thorough': {'evaluations': 200000, 'distinct_nontrivial': 1500, 'valid_passed': 60000, 'faults_judged': 90000,
                 'helpers_judged': 30000, 'position:index': 8000, 'position:quantifier-domain': 8000,
                 'fault:unknown-field': 20000, 'fault:index-out-of-range': 12000},
}
BUDGET = {'quick': 20000, 'thorough': 1200000}
TIMEOUT = {'quick': 900, 'thorough': 7200}

POSITIONS = ('top', 'index', 'range-bound', 'set-element', 'function-argument', 'quantifier-domain',
             'quantifier-body', 'nested-arith')
FAULTS = ('unknown-field', 'field-as-array', 'array-as-message', 'type-mismatch', 'index-out-of-range', 'number-as-compound')
ERRORS = ('TypeError', 'IndexError', 'HplSanityError', 'KeyError')


def extra_fields(rng, sch, n):
    """add uniquely named fields used by the injected atoms (never mentioned by the generated predicates)"""
    f = dict(sch[1])
    f[f'qn{n}'] = gen.NUM
    f[f'qs{n}'] = gen.STR
    f[f'qb{n}'] = gen.BOOL
    f[f'qa{n}'] = ('arr', gen.NUM, -1)
    f[f'qf{n}'] = ('arr', gen.NUM, rng.choice((0, 1, 2, 3, 5)))
    f[f'qm{n}'] = ('msg', {f'in{n}': gen.NUM, f'deep{n}': ('msg', {f'leaf{n}': gen.NUM}, {})}, {})
    f[f'qy{n}'] = ('arr', gen.NUM, -1)
    # a nested message type that declares constants only (no fields at all), and beneath it nothing else
    f[f'qk{n}'] = ('msg', {}, {f'KON{n}': (gen.NUM, rng.choice((0, 1, 7)))})
    # an array of messages: an index here is followed by a further step (field, or field and index)
    f[f'qz{n}'] = ('arr', ('msg', {f'zin{n}': gen.NUM, f'zar{n}': ('arr', gen.NUM, -1)}, {}), -1)
    f[f'qp{n}'] = gen.NUM  # two fields only ever compared with each other: any primitive declaration fits
    f[f'qq{n}'] = gen.NUM
    return ('msg', f, dict(sch[2]))


def numeric_reference(rng, fault, root, n, sch, position=None):
    """(reference expr of inferred type NUMBER, expected-to-fail, needle) for the given fault"""
    def F(name, base=root):
        return ('field', base, name)
    flen = sch[1][f'qf{n}'][2]
    if fault is None:
        opts = [F(f'qn{n}'), ('index', F(f'qa{n}'), A.num('7')), F(f'in{n}', F(f'qm{n}')),
                F(f'leaf{n}', F(f'deep{n}', F(f'qm{n}'))), F(f'KON{n}', F(f'qk{n}'))]
        if flen > 0:  # an array declared with length 0 has no valid literal index
            opts.append(('index', F(f'qf{n}'), A.num(str(flen - 1))))
        return gen.pick(rng, opts), None
    if fault == 'unknown-field':
        d = rng.randrange(3)
        bogus = f'nope{n}'
        r = (F(bogus), F(bogus, F(f'qm{n}')), F(bogus, F(f'deep{n}', F(f'qm{n}'))))[d]
        if rng.random() < 0.15:
            r = F(bogus, F(f'qk{n}'))
        return r, bogus
    if fault == 'field-as-array':
        return ('index', F(f'qn{n}'), A.num('0')), f'qn{n}'
    if fault == 'array-as-message':
        return F(f'sub{n}', F(f'qa{n}')), f'sub{n}'
    if fault == 'type-mismatch':
        if position in ('set-element', 'quantifier-domain'):
            # set elements are only required to be primitive: a primitive field of another kind is no mismatch
            return gen.pick(rng, (F(f'qa{n}'), F(f'qm{n}'))), None
        return gen.pick(rng, (F(f'qs{n}'), F(f'qb{n}'), F(f'qa{n}'), F(f'qm{n}'))), None
    if fault == 'number-as-compound':
        # the reference under test is a declared number; place() is by-passed: the atom itself needs a collection or
        # a message there (one-argument max/min/gcd, len, sum, membership, roll/pitch/yaw)
        return F(f'qn{n}'), f'qn{n}'
    if fault == 'index-out-of-range':
        k = flen + rng.choice((0, 0, 1, 5))
        spelling = gen.pick(rng, (str(k), str(k), f'{k}.0', f'{k}e0', f'{k}.'))  # any NUMBER literal is a literal index
        return ('index', F(f'qf{n}'), A.num(spelling)), str(k)
    raise ValueError(fault)


def place(rng, position, ref, root, n, other_array=None):
    """boolean atom that uses numeric reference `ref` at the given kind of position; other_array is a
    numeric array reference rooted elsewhere (own message vs alias) to index into"""
    def F(name):
        return ('field', root, name)
    if position == 'top':
        return ('bin', gen.pick(rng, ('>', '<=', '=')), ref, A.num('0'))
    if position == 'index':
        arr = other_array if (other_array is not None and rng.random() < 0.6) else F(f'qy{n}')
        if rng.random() < 0.35:
            # the index under test is not the last step of its path
            step = ('index', F(f'qz{n}'), ref)
            return ('bin', '>', gen.pick(rng, (('field', step, f'zin{n}'),
                                               ('index', ('field', step, f'zar{n}'), A.num('0')),
                                               ('index', ('field', ('index', F(f'qz{n}'), A.num('1')), f'zar{n}'), ref))), A.num('0'))
        return ('bin', '>', ('index', arr, ref), A.num('0'))
    if position == 'range-bound':
        rg = ('range', A.num('0'), ref, False, rng.random() < 0.5) if rng.random() < 0.5 else ('range', ref, A.num('9'), False, False)
        return ('bin', 'in', A.num('1'), rg)
    if position == 'set-element':
        return ('bin', 'in', A.num('1'), ('set', (A.num('2'), ref)))
    if position == 'function-argument':
        return ('bin', '>', ('call', gen.pick(rng, ('abs', 'sqrt', 'floor', 'int')), (ref,)), A.num('0'))
    if position == 'quantifier-domain':
        return ('quant', gen.pick(rng, ('forall', 'exists')), f'u{n}', ('set', (ref, A.num('1'))),
                ('bin', '>', A.var(f'u{n}'), A.num('0')))
    if position == 'quantifier-body':
        return ('quant', gen.pick(rng, ('forall', 'exists')), f'u{n}', F(f'qy{n}'),
                ('bin', '>', A.var(f'u{n}'), ref))
    if position == 'nested-arith':
        return ('bin', '<', ('bin', '*', A.num('2'), ('bin', '+', ref, A.num('1'))), A.neg(ref))
    raise ValueError(position)


def run(ctx):
    from hpl import types as HT
    from hpl.types import DataType

    rng = ctx.rng
    br = typeset.Bridge(DataType)
    PP = hplapi.parser('property')
    n_cases = ctx.share(BUDGET[ctx.tier])

    for n in range(n_cases):
        pg = gen.PropGen(rng, maxdepth=rng.randrange(1, 3), max_width=rng.choice((1, 2, 3)), pred_prob=0.6)
        p, schemas, bound = pg.make(n=n, with_meta=False)
        pos = A.prop_positions(p)
        order = [name for name, _ in gen.binding_order(p[2][1], p[3][1])]
        target_pos = gen.pick(rng, order)
        ev = pos[target_pos]
        alts = list(A.simple_events(ev))
        ai = rng.randrange(len(alts))
        _, topic, alias, pred = alts[ai]
        # which earlier aliases may this event reference?
        visible = {}
        for name, sees in gen.binding_order(p[2][1], p[3][1]):
            if name == target_pos:
                for s in sees:
                    visible.update(bound.get(s, {}))
        through_alias = bool(visible) and rng.random() < 0.35
        if through_alias:
            aname = gen.pick(rng, sorted(visible))
            root = A.var(aname)
            owner_topic = None
            for t, st in schemas.items():
                if st is visible[aname]:
                    owner_topic = t
            base_schema = visible[aname]
        else:
            root = A.THIS
            owner_topic = topic
            base_schema = schemas[topic]
        if owner_topic is None:
            continue
        ext = extra_fields(rng, base_schema, n)
        schemas = dict(schemas)
        schemas[owner_topic] = ext
        fault = gen.pick(rng, FAULTS) if rng.random() < 0.6 else None
        position = gen.pick(rng, POSITIONS)
        ref, needle = numeric_reference(rng, fault, root, n, ext, position)
        # an array rooted at the *other* message (alias vs own), to be indexed by the reference under test
        other_array = None
        if through_alias:
            arrs = sorted(k for k, t in schemas[topic][1].items() if t == ('arr', gen.NUM, -1))
            if arrs:
                other_array = ('field', A.THIS, arrs[0])
        elif visible:
            an = sorted(visible)[0]
            arrs = sorted(k for k, t in visible[an][1].items() if t == ('arr', gen.NUM, -1))
            if arrs:
                other_array = ('field', A.var(an), arrs[0])
        if other_array is not None and position == 'index':
            ctx.count('index_across_roots')
        atom = place(rng, position, ref, root, n, other_array)
        if fault == 'number-as-compound':
            fn = gen.pick(rng, ('max', 'min', 'gcd', 'len', 'sum', 'prod', 'roll', 'pitch', 'yaw', 'in'))
            atom = ('bin', 'in', A.num('1'), ref) if fn == 'in' else ('bin', '>', ('call', fn, (ref,)), A.num('0'))
        weak_first = rng.random() < 0.3
        if weak_first:
            # an earlier occurrence of the same path in a context that constrains it to PRIMITIVE only: the fault
            # (if any) then shows at a later occurrence of a path already seen
            atom = ('bin', 'and', ('bin', gen.pick(rng, ('=', '!=')), ref, ref), atom)
            ctx.count('weak_first_occurrence')
        poly = rng.random() < 0.3
        if poly:
            atom = ('bin', 'and', atom, ('bin', gen.pick(rng, ('=', '!=')), ('field', root, f'qp{n}'), ('field', root, f'qq{n}')))
        if root != A.THIS and rng.random() < 0.5:
            # half of the time the predicate also mentions its own message (a trivial atom on a numeric own field);
            # otherwise every reference of the event is rooted at the earlier event's alias
            own = sorted(k for k, t in schemas[topic][1].items() if t == gen.NUM)[0]
            atom = ('bin', 'and', atom, ('bin', '>=', ('field', A.THIS, own), ('field', A.THIS, own)))
        elif root != A.THIS and rng.random() < 0.7:
            pred = None
            ctx.count('alias_rooted_only_predicates')
        newpred = atom if pred is None else ('bin', gen.pick(rng, ('and', 'or', 'implies')), pred, atom) if rng.random() < 0.7 else ('bin', 'and', atom, pred)
        alts[ai] = ('ev', topic, alias, newpred)
        new_ev = alts[0] if ev[0] != 'disj' else ('disj', tuple(alts))
        events = dict(pos)
        events[target_pos] = new_ev
        p2 = gen.assemble(p[2][1], p[3][1], events, p[3][4])
        text = A.render_prop(p2)
        feats = {'api:type_check_references', 'shape:fault-' + (fault or 'none'), 'shape:position-' + position,
                 'shape:event-' + target_pos, 'shape:alias' if through_alias else 'shape:own'}
        if weak_first:
            feats.add('shape:weak-first-occurrence')
        ctx.begin_case(feats)
        o = hplapi.outcome(PP.parse, text)
        if o[0] != 'ok':
            ctx.skip('property-rejected:' + hplapi.exc_class(o))
            continue
        hp = o[1]
        all_aliases = {}
        for m in bound.values():
            for a, st in m.items():
                all_aliases[a] = ext if st is base_schema else st
        for e2 in A.prop_positions(p2).values():
            for se in A.simple_events(e2):
                if se[2] is not None:
                    all_aliases.setdefault(se[2], schemas[se[1]])
        # my own verdict over the parsed AST
        my_faults = []
        for hev in (hp.scope.activator, hp.scope.terminator, hp.pattern.trigger, hp.pattern.behaviour):
            if hev is None:
                continue
            for se in hev.simple_events():
                if not getattr(se.predicate, 'is_vacuous', False):
                    my_faults += SC.check_expression(se.predicate.condition, schemas[str(se.name)], all_aliases, br)
        expected_fail = bool(my_faults)
        if fault == 'number-as-compound' and not expected_fail:
            # the model reads the type sets hpl stored in the tree; for this fault the expectation does not depend on
            # them: a declared number is no collection and no message, whatever was inferred for the argument
            ctx.count('injection_overrides_model')
            my_faults = [f'declared number {needle} used where a collection or message is required']
            expected_fail = True
        if (fault is not None) != expected_fail:
            ctx.count('harness_disagrees_with_injection')
            ctx.skip(f'model-and-injection-disagree:{fault}@{position}')
            if fault is None and ctx.counters['harness_disagrees_with_injection'] <= 6:
                ctx.sample({'DISAGREE': text[:400], 'fault': fault, 'position': position, 'model': [str(f) for f in my_faults][:3]}, force=True)
            continue
        msg_types = {t: hplapi.type_token(st, 'T_' + t.strip('/~').replace('/', '_'), rng) for t, st in schemas.items()}
        for a, st in all_aliases.items():
            msg_types[a] = hplapi.type_token(st, 'A_' + a, rng)
        oc = hplapi.outcome(hp.type_check_references, msg_types)
        cls = hplapi.exc_class(oc)
        ctx.evaluation(f'{fault}|{position}|{target_pos}|{"alias" if through_alias else "own"}|{len(alts)}|{int(weak_first)}',
                       fault is not None)
        ctx.count('position:' + position)
        ctx.count('event:' + target_pos)
        if n % 150 == 0:
            ctx.sample({'property': text[:300], 'fault': fault, 'position': position, 'event': target_pos,
                        'through_alias': through_alias, 'outcome': cls,
                        'message': str(oc[1])[:120] if oc[0] != 'ok' else None})
        w = {'property': text, 'fault': fault, 'position': position, 'event': target_pos, 'alternative': ai,
             'through_alias': through_alias, 'outcome': cls}
        if fault is None:
            if cls != 'ok':
                ctx.violation('schema-check-rejects-valid', dict(w, message=str(oc[1])[:200]), feats | {'exc:' + cls})
            elif oc[1] is False:
                ctx.violation('schema-check-returns-value', w, feats)
            else:
                ctx.count('valid_passed')
                if poly:
                    # history: the same property object against a second schema that is just as valid (the two
                    # polymorphic fields declared as strings), then against the first again
                    f2 = dict(ext[1])
                    f2[f'qp{n}'] = gen.STR
                    f2[f'qq{n}'] = gen.STR
                    ext2 = ('msg', f2, ext[2])
                    mt2 = dict(msg_types)
                    for key, st in list(schemas.items()) + list(all_aliases.items()):
                        if st is ext:
                            mt2[key] = hplapi.type_token(ext2, 'X_' + key.strip('/~').replace('/', '_'), rng)
                    ctx.count('second_valid_schema_judged')
                    ctx.evaluation(f'second-schema|{position}|{"alias" if through_alias else "own"}', True)
                    for label, mt in (('second valid schema', mt2), ('first schema again', msg_types)):
                        o2 = hplapi.outcome(hp.type_check_references, mt)
                        if o2[0] != 'ok':
                            ctx.violation('schema-check-rejects-valid', dict(w, history=label, message=str(o2[1])[:200]),
                                          feats | {'shape:history', 'exc:' + hplapi.exc_class(o2)})
                            break
                if n % 3 == 0:
                    # history / schema-side fault: the same property object against a schema that lacks the fields
                    # (must fail), then against the original schema again (must pass again)
                    from hpl.types import MessageType
                    key = owner_topic if not through_alias else aname
                    broken = dict(msg_types)
                    broken[key] = MessageType('Empty')
                    ob = hplapi.outcome(hp.type_check_references, broken)
                    ctx.evaluation(f'schema-side|{position}|{"alias" if through_alias else "own"}', True)
                    ctx.count('schema_side_faults_judged')
                    if ob[0] == 'ok':
                        ctx.violation('faulty-path-accepted', dict(w, schema_fault=f'type of {key} replaced by an empty message type'),
                                      feats | {'shape:schema-side-fault'})
                    oa = hplapi.outcome(hp.type_check_references, msg_types)
                    if oa[0] != 'ok':
                        ctx.violation('schema-check-rejects-valid', dict(w, history='after a failing check with another schema',
                                                                     message=str(oa[1])[:200]), feats | {'shape:history'})
            continue
        ctx.count('faults_judged')
        ctx.count('fault:' + fault)
        if cls == 'ok':
            ctx.violation('faulty-path-accepted', dict(w, model=str(my_faults[0])), feats)
        elif cls not in ERRORS:
            ctx.violation('faulty-path-wrong-error', dict(w, message=str(oc[1])[:200]), feats | {'exc:' + cls})
        elif needle is not None and needle not in str(oc[1]):
            ctx.violation('error-does-not-identify-reference', dict(w, needle=needle, message=str(oc[1])[:240]), feats)

    # ---- helpers --------------------------------------------------------------------------------
    def hv(kind, w, feats=('api:types',)):
        ctx.begin_case(set(feats))
        ctx.violation(kind, w, set(feats))

    for n in range(max(40, n_cases // 12)):
        sch = gen.random_schema(rng, depth=rng.choice((0, 1, 2, 2)))
        tok = hplapi.type_token(sch, 'M', rng)
        nested = any(t[0] == 'msg' for t in sch[1].values())
        ctx.evaluation(f'helpers|{gen.schema_shape(sch)[:50]}', nested)
        ctx.count('helpers_judged')
        o = hplapi.outcome(tok.leaf_fields)
        model = SC.leaf_fields_model(sch)
        if o[0] != 'ok':
            hv('leaf-fields', {'schema': gen.schema_shape(sch)[:200], 'error': hplapi.exc_class(o),
                               'message': str(o[1])[:160], 'nested': nested}, ('api:leaf_fields', 'exc:' + hplapi.exc_class(o)))
        else:
            got = {k: v.type for k, v in o[1].items()}
            exp = {k: DataType[SC.KIND[t[0]]] for k, t in model.items()}
            if got != exp:
                hv('leaf-fields', {'schema': gen.schema_shape(sch)[:200], 'expected': sorted(exp), 'observed': sorted(got)},
                   ('api:leaf_fields',))
        for name, t in list(sch[1].items()) + [(c, v[0]) for c, v in sch[2].items()]:
            ctx.count('helpers_judged')
            if not tok.contains_name(name):
                hv('contains-name', {'name': name, 'expected': True})
            g = hplapi.outcome(tok.get_type_of, name)
            if g[0] != 'ok' or g[1].type != DataType[SC.KIND[t[0]]]:
                hv('get-type-of', {'name': name, 'observed': repr(g[1])[:100]})
            if t[0] == 'arr':
                at = g[1] if g[0] == 'ok' else None
                if at is not None:
                    for i in range(0, 8):
                        exp = t[2] < 0 or i < t[2]
                        if at.contains_index(i) is not exp:
                            hv('contains-index', {'length': t[2], 'index': i, 'observed': at.contains_index(i)},
                               ('api:contains_index',))
                    if at.is_fixed_length is not (t[2] >= 0):
                        hv('is-fixed-length', {'length': t[2]})
        if tok.contains_name(f'absent{n}'):
            hv('contains-name', {'name': f'absent{n}', 'expected': False})
        # the same message type (one token object, one type name) on several branches of one tree
        subs = [t for t in sch[1].values() if t[0] == 'msg']
        if subs:
            sub_s = subs[0]
            sub_tok = hplapi.type_token(sub_s, 'Shared', rng)
            tree = ('msg', {'first': sub_s, 'second': sub_s, 'k': gen.NUM, 'deep': ('msg', {'third': sub_s}, {})}, {})
            deep_tok = HT.MessageType('Deep', fields={'third': sub_tok})
            tree_tok = HT.MessageType('Tree', fields={'first': sub_tok, 'second': sub_tok, 'k': HT.FLOAT64, 'deep': deep_tok})
            o2 = hplapi.outcome(tree_tok.leaf_fields)
            exp2 = {k: DataType[SC.KIND[t[0]]] for k, t in SC.leaf_fields_model(tree).items()}
            ctx.evaluation('helpers|shared-subtype', True)
            ctx.count('helpers_judged')
            ctx.count('shared_subtype_trees')
            got2 = {k: v.type for k, v in o2[1].items()} if o2[0] == 'ok' else None
            if got2 != exp2:
                hv('leaf-fields', {'schema': 'Tree{first: S, second: S, k, deep{third: S}} with S = ' + gen.schema_shape(sub_s)[:120],
                                   'expected': sorted(exp2), 'observed': sorted(got2) if got2 is not None else hplapi.exc_class(o2)},
                   ('api:leaf_fields', 'shape:shared-subtype'))

    if ctx.shard == 0:
        for name, bits, signed in (('UINT8', 8, False), ('UINT16', 16, False), ('UINT32', 32, False),
                                   ('UINT64', 64, False), ('INT8', 8, True), ('INT16', 16, True),
                                   ('INT32', 32, True), ('INT64', 64, True)):
            tok = getattr(HT, name)
            lo, hi = (-(2 ** (bits - 1)), 2 ** (bits - 1) - 1) if signed else (0, 2 ** bits - 1)
            ctx.evaluation('bounds|' + name, True)
            ctx.count('helpers_judged')
            if tok.min_value != lo or tok.max_value != hi or tok.type != DataType.NUMBER:
                hv('integer-bounds', {'token': name, 'expected': [lo, hi], 'observed': [tok.min_value, tok.max_value]},
                   ('api:integer-tokens',))
            fresh = getattr(HT.RangedType, name.lower())()
            if fresh.min_value != lo or fresh.max_value != hi:
                hv('integer-bounds', {'token': name + '()', 'expected': [lo, hi],
                                      'observed': [fresh.min_value, fresh.max_value]}, ('api:integer-tokens',))
        rejections = (
            ('max-below-min', lambda: HT.RangedType('r', DataType.NUMBER, min_value=5, max_value=4)),
            ('length-below-minus-one', lambda: HT.ArrayType('a', subtype=HT.UINT8, length=-2)),
            ('bool-enum-wrong-kind', lambda: HT.EnumeratedType('e', DataType.BOOL, values=(1, 'x'))),
            ('number-enum-wrong-kind', lambda: HT.EnumeratedType('e', DataType.NUMBER, values=('a',))),
            ('string-enum-wrong-kind', lambda: HT.EnumeratedType('e', DataType.STRING, values=(1,))),
            ('non-base-type', lambda: HT.TypeToken('t', DataType.PRIMITIVE)),
        )
        for name, thunk in rejections:
            o = hplapi.outcome(thunk)
            ctx.evaluation('reject|' + name, True)
            ctx.count('helpers_judged')
            if o[0] == 'ok':
                hv('ill-formed-declaration-accepted', {'case': name}, ('api:type-constructors',))
        accepts = (
            ('max-equals-min', lambda: HT.RangedType('r', DataType.NUMBER, min_value=4, max_value=4)),
            ('length-minus-one', lambda: HT.ArrayType('a', subtype=HT.UINT8, length=-1)),
            ('length-zero', lambda: HT.ArrayType('a', subtype=HT.UINT8, length=0)),
            ('bool-enum', lambda: HT.EnumeratedType('e', DataType.BOOL, values=(True,))),
        )
        for name, thunk in accepts:
            o = hplapi.outcome(thunk)
            ctx.evaluation('accept|' + name, True)
            ctx.count('helpers_judged')
            if o[0] != 'ok':
                hv('well-formed-declaration-rejected', {'case': name, 'error': hplapi.exc_class(o)}, ('api:type-constructors',))

        # small scope: every value tuple of length 1-3 over a pool of look-alike values, for each base type; every
        # (min, max) pair and array length over boundary pools
        import itertools
        import math

        pool = (True, False, 0, 1, 1.0, 0.0, 2, -1, 'a', '', '1', None)
        right_kind = {'BOOL': lambda v: isinstance(v, bool),
                      'NUMBER': lambda v: isinstance(v, (int, float)) and not isinstance(v, bool),
                      'STRING': lambda v: isinstance(v, str)}
        for tname, ok in right_kind.items():
            for k in (1, 2, 3):
                for values in itertools.product(pool, repeat=k):
                    if tname == 'NUMBER' and any(isinstance(v, bool) for v in values):
                        continue  # Python's bool is an int: whether a boolean is a NUMBER value is not stated
                    expect_ok = all(ok(v) for v in values)
                    o = hplapi.outcome(lambda: HT.EnumeratedType('e', DataType[tname], values=values))
                    ctx.evaluation(f'enum|{tname}|{k}|{expect_ok}|{"".join(type(v).__name__[0] for v in values)}', True)
                    ctx.count('helpers_judged')
                    ctx.count('enum_declarations_judged')
                    if expect_ok and o[0] != 'ok':
                        hv('well-formed-declaration-rejected', {'case': f'{tname} enum {values!r}', 'error': hplapi.exc_class(o)},
                           ('api:type-constructors',))
                    elif not expect_ok and o[0] == 'ok':
                        hv('ill-formed-declaration-accepted', {'case': f'{tname} enum {values!r}'}, ('api:type-constructors',))
        bounds = (-math.inf, -1, 0, 0.5, 1, 255, math.inf)
        for lo in bounds:
            for hi in bounds:
                o = hplapi.outcome(lambda: HT.RangedType('r', DataType.NUMBER, min_value=lo, max_value=hi))
                ctx.evaluation(f'ranged|{lo}|{hi}', True)
                ctx.count('helpers_judged')
                if hi < lo and o[0] == 'ok':
                    hv('ill-formed-declaration-accepted', {'case': f'ranged [{lo}, {hi}]'}, ('api:type-constructors',))
                elif hi >= lo and o[0] != 'ok':
                    hv('well-formed-declaration-rejected', {'case': f'ranged [{lo}, {hi}]', 'error': hplapi.exc_class(o)},
                       ('api:type-constructors',))
        for length in range(-4, 5):
            for sub_ in (HT.UINT8, HT.STRINGS, HT.BOOLEANS):
                o = hplapi.outcome(lambda: HT.ArrayType('a', subtype=sub_, length=length))
                ctx.evaluation(f'array|{length}', True)
                ctx.count('helpers_judged')
                if length >= -1 and o[0] == 'ok':
                    tok = o[1]
                    got = (tok.length, tok.is_fixed_length, [tok.contains_index(i) for i in range(6)])
                    exp = (length, length >= 0, [length < 0 or i < length for i in range(6)])
                    if got != exp:
                        hv('array-token', {'declared_length': length, 'expected': repr(exp), 'observed': repr(got)},
                           ('api:contains_index',))
                if length < -1 and o[0] == 'ok':
                    hv('ill-formed-declaration-accepted', {'case': f'array length {length}'}, ('api:type-constructors',))
                elif length >= -1 and o[0] != 'ok':
                    hv('well-formed-declaration-rejected', {'case': f'array length {length}', 'error': hplapi.exc_class(o)},
                       ('api:type-constructors',))
