"""C07 - parsing never fails in undocumented ways and parsers are stateless."""
import re

from .. import absyn as A
from .. import gen, hplapi, monitors

ID = 'C07'
LEVEL = 'exploration'
TECHNIQUE = ('runtime monitoring: exception classifier, logical step counter (sys.monitoring), audit hook and '
             'history comparison (three call orders on long-lived parser objects + fresh objects) around the real '
             'parser entry points under hostile inputs')
RULE = ('Inputs: arbitrary Unicode spliced into valid texts and standalone, random HPL token sequences of length '
        '1-60, one- and two-token mutants of valid texts of all five entry points, valid texts, nesting up to depth '
        '25. Every input is parsed by three long-lived parser objects in three different orders (with repeats) and, '
        'sampled, by a fresh parser object and the module-level convenience function; the outcome must be an AST or '
        'a documented error class, identical across histories, within 2e6 Python calls, with no I/O audit events. '
        'Non-trivial = input of >= 3 tokens; distinct = (entry point, token-kind sequence, outcome class).')
RULE_ADDED = ' Since the seeding rounds: whitespace-twin groups (incl. unusual escapes), numeric extremes, unit swaps on time bounds, duplicate annotations, human-written corpus at all entry points, per-parse CPU-time budget, event lists at the edge of their shape (one event in parentheses, empty list, dangling or).'
ASSUMPTIONS = [
    'ValueError is licensed only when the text applies a name that is not a built-in function',
    'termination is restated as bounded progress: a logical step budget (2e6 Python function calls for <= 60 tokens) '
    'and 20 s of the process\'s own user CPU time per parse (ITIMER_VIRTUAL, load-independent; usual cost: '
    'milliseconds); a wall-clock watchdog firing is inconclusive, not a violation',
    'RecursionError beyond nesting depth 25 is outside the stated bound and skipped',
]
FLOORS = {
    'quick': {'evaluations': 20000, 'distinct_nontrivial': 3000, 'history_comparisons': 40000,
              'outcome:HplSyntaxError': 5000, 'outcome:ok': 2000, 'outcome:TypeError': 500,
              'steps_measured': 1500, 'fresh_parser_comparisons': 200},
    'thorough': {'evaluations': 500000, 'distinct_nontrivial': 50000, 'history_comparisons': 1000000,
                 'outcome:HplSyntaxError': 100000, 'outcome:ok': 40000, 'outcome:TypeError': 10000,
                 'steps_measured': 30000, 'fresh_parser_comparisons': 3000},
}
BUDGET = {'quick': 40000, 'thorough': 1000000}
STEP_BUDGET = 2_000_000
CPU_BUDGET = 20.0  # seconds of user CPU time per parse (usual: milliseconds)
LEVELS = ('specification', 'property', 'predicate', 'condition', 'expression')
CALL_RE = re.compile(r'([A-Za-z_][A-Za-z0-9_]*)\s*\(')
UNICODE_POOL = ['\u0000', '﻿', '‏', '‮', 'é', 'ß', '世', '𝔘', '\U0001F600', '́', '\x7f', '\x1b',
                ' ', ' ', '\r', '\x0b', '“', '”', '＝', '＠', '\\', '"', "'", '`', '$', '%', '^', '&', ';',
                '?', '|', '\t', 'İ', 'ǅ', '٣', '௫', '𝟙']


def token_kind(t):
    if t in A.KEYWORDS or not (t[0].isalnum() or t[0] in '_@"/~.'):
        return t
    if t[0] == '"':
        return 'S'
    if t[0] == '@':
        return 'V'
    if t[0].isdigit() or t[0] == '.':
        return 'N' if len(t) > 1 or t != '.' else '.'
    return 'I'


def unknown_function_applied(text):
    for name in CALL_RE.findall(text):
        if name not in gen.ALL_FUNS:  # a keyword in function position is read as a name (not judged in C01)
            return True
    return False


def make_inputs(rng, n):
    """list of (level, text, ntokens, kindsig, origin)"""
    out = []
    props = []
    while len(out) < n:
        k = rng.random()
        level = gen.pick(rng, LEVELS)
        if level in ('specification', 'property'):
            pg = gen.PropGen(rng, maxdepth=rng.randrange(1, 4), kw_names=0.1, max_width=3)
            p, _, _ = pg.make(n=len(out))
            props.append(p)
            if level == 'specification':
                ps = [p] + [gen.pick(rng, props) for _ in range(rng.randrange(0, 3))]
                toks = A.spec_tokens(ps)
            else:
                toks = A.prop_tokens(p)
        else:
            if rng.random() < 0.6:
                sch = gen.random_schema(rng, depth=1)
                e = gen.Typed(rng, this=sch, aliases={'A': sch} if rng.random() < 0.3 else {},
                              maxdepth=rng.randrange(1, 5)).bool(3)
            else:
                e = gen.Untyped(rng, maxdepth=rng.randrange(1, 5), kw_names=0.1).cond(3)
            if not A.renderable(e):
                continue
            toks = A.expr_tokens(e)
            if level == 'predicate':
                toks = ['{'] + toks + ['}']
        origin = 'valid'
        if rng.random() < 0.05:
            # texts that differ only in white space *inside a string literal*, or by an exotic blank next to an
            # ordinary one: different inputs (different value / ill-formed) that a careless normalisation would merge
            group = []
            for inner in rng.sample(('a b', 'a  b', 'a\tb', 'a\xa0b', 'a b ', ' a b', 'ab', 'C:\\data\\logs', '50\\% done',
                                     '\\x41', 'caf\\u00e9', 'a\\ b', 'q\\', 'step 1) stop', ']', '}}', '({[', 'a ] b'), 3):
                lit = '"' + inner + '"'
                if level in ('specification', 'property'):
                    body = toks
                    while body and body[0] == '#':
                        body = body[4:]
                    tk = ['#', gen.pick(rng, ('title', 'description')), ':', lit] + body
                elif level == 'predicate':
                    tk = toks[:-1] + ['and', 'qname', '=', lit, '}']
                else:
                    tk = toks + ['and', 'qname', '=', lit]
                group.append(A.layout(tk))
            base = group[0]
            if ' ' in base:
                j = base.index(' ')
                group.append(base[:j] + gen.pick(rng, ('\xa0', '\u2003', '\x0b', '\x85', '\u3000')) + base[j:])
                group.append(base + gen.pick(rng, ('\xa0', '\u2028', '\x1f')))
            for g in group:
                out.append((level, g, len(g.split()), 'twin', 'whitespace-twin'))
                if rng.random() < 0.5:
                    # the same text cut short at a token boundary (a valid prefix that stops too early)
                    words = g.split(' ')
                    cut = ' '.join(words[:rng.randrange(1, max(2, len(words)))])
                    out.append((level, cut, len(cut.split()), 'truncated', 'truncated'))
            continue
        if level in ('predicate', 'condition', 'expression') and rng.random() < 0.04:
            # legal number spellings at the edge of what the host language converts: overflowing exponents, denormals,
            # digit strings beyond the interpreter's int() limit
            lit = gen.pick(rng, ('1e309', '2E400', '1e-400', '0.1e310', '9' * 4301, '1' + '0' * 400, '1e308', '4.9e-324'))
            body = toks[1:-1] if level == 'predicate' else toks
            tk = body + ['and', 'qnum', gen.pick(rng, ('<', '=', '>=')), lit]
            if rng.random() < 0.3:
                tk = body + ['and', 'qarr', '[', lit, ']', '>', '0']
            if level == 'predicate':
                tk = ['{'] + tk + ['}']
            out.append((level, A.layout(tk), len(tk), 'numeric-extreme', 'numeric-extreme'))
            continue
        if level in ('specification', 'property') and 'within' in toks and rng.random() < 0.08:
            # the time bound with another unit word or a degenerate amount (only `s` and `ms` are units)
            j = len(toks) - 1 - toks[::-1].index('within')
            tk = list(toks)
            if j + 2 < len(tk):
                tk[j + 1] = gen.pick(rng, ('0', '0.0', '1', '10', '1e-400', '.0'))
                tk[j + 2] = gen.pick(rng, ('hz', 'Hz', 'us', 'min', 'sec', 'h', 'S', 's', 'ms'))
                out.append((level, A.layout(tk), len(tk), 'unit-swap', 'unit-swap'))
                continue
        if level in ('specification', 'property') and rng.random() < 0.05:
            # event lists at the edge of their shape: one simple event inside the parentheses of a disjunction, a
            # disjunction without them, an empty list, a dangling `or`
            simple = [se for ev in A.prop_positions(p).values() for se in ([ev] if ev[0] == 'ev' else list(ev[1]))]
            et = A.event_tokens(gen.pick(rng, simple))
            tk = list(toks)
            for j in range(len(tk) - len(et) + 1):
                if tk[j:j + len(et)] == et:
                    how = rng.randrange(4)
                    mid = (['('] + et + [')'], ['(', ')'], ['('] + et + ['or', ')'], ['(', '('] + et + [')', ')'])[how]
                    tk = tk[:j] + mid + tk[j + len(et):]
                    break
            out.append((level, A.layout(tk), len(tk), 'event-list-edge', 'event-list-edge'))
            continue
        if level in ('specification', 'property') and rng.random() < 0.06:
            # a repeated annotation key, with and without an id before it
            key = gen.pick(rng, ('title', 'description', 'id'))
            val = 'dup_id' if key == 'id' else '"again"'
            extra = ['#', key, ':', val, '#', key, ':', val]
            if rng.random() < 0.5:
                extra = (['#', 'id', ':', 'p0'] if key != 'id' else ['#', 'title', ':', '"t"']) + extra if rng.random() < 0.5 else extra + (['#', 'id', ':', 'p0'] if key != 'id' else [])
            body = toks
            while body and body[0] == '#':
                body = body[4:]
            toks = extra + body
            origin = 'dup-annotation'
            k = 0.0
        if k < 0.30:
            pass
        elif k < 0.62:
            toks = gen.mutate_tokens(rng, toks, rng.choice((1, 1, 2)))
            origin = 'mutant'
        elif k < 0.80:
            m = rng.randrange(1, 61)
            toks = [gen.pick(rng, gen.TOKEN_ALPHABET) for _ in range(m)]
            origin = 'random-tokens'
        elif k < 0.86:
            toks = nesting(rng, level)
            origin = 'nesting'
        else:
            origin = 'unicode'
        if origin == 'unicode':
            text = A.layout(toks, rng, 'random')
            if rng.random() < 0.3:
                text = ''.join(gen.pick(rng, UNICODE_POOL + list('ab1 ={(')) for _ in range(rng.randrange(0, 12)))
            else:
                for _ in range(rng.choice((1, 1, 2, 3))):
                    i = rng.randrange(len(text) + 1)
                    text = text[:i] + gen.pick(rng, UNICODE_POOL) + text[i:]
            ntok = len(text.split())
            sig = 'u' + str(min(ntok, 9))
        else:
            text = A.layout(toks, rng, 'random') if rng.random() < 0.5 else A.layout(toks)
            ntok = len(toks)
            sig = ' '.join(token_kind(t) for t in toks)
        out.append((level, text, ntok, sig, origin))
    return out


def nesting(rng, level):
    d = rng.randrange(5, 26)
    k = rng.randrange(6)
    if k == 0:
        toks = ['('] * d + ['x'] + [')'] * d
    elif k == 1:
        toks = ['not'] * d + ['x']
    elif k == 2:
        toks = ['-'] * d + ['x']
    elif k == 3:
        toks = ['a']
        for _ in range(d):
            toks = ['a', '['] + toks + [']']
    elif k == 4:
        toks = ['1']
        for _ in range(d):
            toks = ['{'] + toks + ['}']
    else:
        toks = ['x']
        for i in range(d):
            toks = ['forall', f'v{i}', 'in', 'xs', ':', '('] + toks + ['and', f'@v{i}', ')']
    if level == 'predicate':
        toks = ['{'] + toks + ['}']
    if level in ('property', 'specification'):
        toks = ['globally', ':', 'no', 'a', '{'] + toks + ['}']
    return toks


def outcome_key(o):
    if o[0] == 'ok':
        return ('ok', monitors.snapshot(o[1]))
    # Lark lists the expected terminals in set-iteration order, which varies with the history of the
    # process; the order of those lines is not part of the result, their content is.
    return (type(o[1]).__name__, '\n'.join(sorted(str(o[1]).split('\n'))))


def run(ctx):
    from hpl import parser as hp

    rng = ctx.rng
    documented = hplapi.documented_errors()
    SyntaxErr = documented[0]
    n = ctx.share(BUDGET[ctx.tier])
    monitors.AUDIT.install()
    steps = monitors.StepCounter()
    conv = {'specification': hp.parse_specification, 'property': hp.parse_property,
            'predicate': hp.parse_predicate, 'condition': hp.parse_condition, 'expression': hp.parse_expresion}
    batch = 400
    done = 0
    first = True
    slow = set()  # (level, text) that used up the CPU budget once: not parsed again
    while done < n:
        inputs = make_inputs(rng, min(batch, n - done))
        done += len(inputs)
        if first and ctx.shard == 0:
            # human-written strings of the repository's tests and documentation, accepted or not, at every level
            from .. import corpus
            for origin_, text_ in corpus.candidates():
                for lv in LEVELS:
                    inputs.append((lv, text_, len(text_.split()), 'corpus', 'corpus'))
            rng.shuffle(inputs)
        first = False
        # three long-lived parser objects per level, three orders (the third with repeats)
        parsers = {lv: [hplapi.fresh_parser(lv) for _ in range(3)] for lv in LEVELS}
        results = [dict(), dict(), dict()]
        order0 = list(range(len(inputs)))
        order1 = list(reversed(order0))
        order2 = order0 + [rng.randrange(len(inputs)) for _ in range(len(inputs) // 4)]
        rng.shuffle(order2)
        for h, order in enumerate((order0, order1, order2)):
            for i in order:
                level, text, ntok, sig, origin = inputs[i]
                measure = h == 0 and rng.random() < 0.08
                monitors.AUDIT.armed = True
                if measure:
                    steps.start()
                try:
                    if (level, text) in slow:
                        o = ('raise', monitors.CpuBudgetExceeded())
                    else:
                        with monitors.CpuBudget(CPU_BUDGET):
                            o = hplapi.outcome(parsers[level][h].parse, text)
                except monitors.CpuBudgetExceeded as ex:
                    slow.add((level, text))
                    o = ('raise', ex)
                finally:
                    if measure:
                        used = steps.stop()
                    monitors.AUDIT.armed = False
                key = outcome_key(o)
                if measure:
                    ctx.count('steps_measured')
                    ctx.count('steps_total', used)
                    if ntok <= 60 and used > STEP_BUDGET:
                        ctx.begin_case(('api:parse_' + level,))
                        ctx.violation('step-budget', {'level': level, 'text': text, 'steps': used}, ('api:parse_' + level,))
                prev = results[h].get(i)
                if prev is not None and prev != key:
                    ctx.begin_case(('api:parse_' + level,))
                    ctx.violation('history-dependence', {'level': level, 'text': text, 'same_parser_repeat': True,
                                                         'a': repr(prev)[:200], 'b': repr(key)[:200]},
                                  ('api:parse_' + level,))
                results[h][i] = key
        for i, (level, text, ntok, sig, origin) in enumerate(inputs):
            k0 = results[0][i]
            cls = k0[0]
            feats = ('api:parse_' + level, 'shape:' + origin)
            ctx.begin_case(feats)
            ctx.evaluation(f'{level}|{sig}|{cls}', ntok >= 3)
            ctx.count('outcome:' + cls)
            ctx.count('origin:' + origin)
            if i % 97 == 0:
                ctx.sample({'level': level, 'text': text[:200], 'origin': origin, 'outcome': cls})
            for h in (1, 2):
                ctx.count('history_comparisons')
                if results[h][i] != k0:
                    ctx.violation('history-dependence', {'level': level, 'text': text, 'a': repr(k0)[:300],
                                                         'b': repr(results[h][i])[:300], 'history': h}, feats)
            if cls == 'CpuBudgetExceeded':
                ctx.violation('no-result-within-cpu-budget', {'level': level, 'text': text, 'origin': origin,
                                                              'cpu_seconds': CPU_BUDGET, 'characters': len(text)}, feats)
                continue
            if cls != 'ok':
                allowed = cls in ('HplSyntaxError', 'HplSanityError', 'TypeError')
                if cls == 'ValueError':
                    allowed = unknown_function_applied(text)
                if cls == 'RecursionError':
                    ctx.skip('depth')
                    continue
                if not allowed:
                    ctx.violation('undocumented-error', {'level': level, 'text': text, 'error': cls,
                                                        'message': k0[1][:200], 'origin': origin},
                                  feats + ('exc:' + cls,))
            # fresh parser object / convenience function (sampled: building a parser is expensive)
            if rng.random() < 0.012:
                try:
                    with monitors.CpuBudget(CPU_BUDGET):
                        o = hplapi.outcome(conv[level], text)
                except monitors.CpuBudgetExceeded as ex:
                    o = ('raise', ex)
                ctx.count('fresh_parser_comparisons')
                if outcome_key(o) != k0:
                    ctx.violation('history-dependence', {'level': level, 'text': text, 'fresh': True,
                                                         'a': repr(k0)[:300], 'b': repr(outcome_key(o))[:300]}, feats)
        if len(slow) >= 3:
            break  # every further such input costs the whole budget again; the violations are already recorded
    if monitors.AUDIT.events:
        ctx.begin_case(())
        ctx.violation('io-during-parse', dict(monitors.AUDIT.events), ())
    ctx.count('audit_events', sum(monitors.AUDIT.events.values()))
