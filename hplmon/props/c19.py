"""C19 - the command-line tool's exit status and JSON output are faithful."""
import contextlib
import io
import json
import os
import subprocess
import sys
import tempfile

from .. import absyn as A
from .. import env, gen, hplapi
from ..model import jsonmirror

ID = 'C19'
LEVEL = 'exploration'
TECHNIQUE = ('runtime monitoring: hpl.cli.main is driven in-process (captured stdout/stderr) and as a real '
             '`python -m hpl` subprocess; oracle = in-process parse outcome for the exit status, strict JSON '
             'parsing and an independent field-by-field mirror serialisation for the output')
RULE = ('Generated property texts (inline, -p) and specification files (valid; syntax, type and sanity errors; '
        'missing files, directories, invalid UTF-8), with and without -o json, always including untimed patterns, '
        'INF/NAN/-INF, nested constants and unicode annotations. Exit status must be 0 iff the argument parses; a '
        'failing run must print a diagnostic and no JSON document; a successful -o json run must print one strictly '
        'valid JSON document equal to the mirror serialisation of the AST parsed in-process. Non-trivial = JSON '
        'compared or error path judged with >= 2 events; distinct = shape x flags x outcome.')
RULE_ADDED = ' Since the seeding rounds: finite extremes of the doubles, integers that no double holds exactly and one beyond the doubles\' range (compared exactly); empty and blank files; strings and annotations with words a shell, os.path or a format call would expand ($HOME, ${HOME}/x, $PATH, ~, %s, {0}; the variables are set).'
ASSUMPTIONS = [
    'argument texts starting with "-" are not judged (argparse takes them for options: caller error)',
    'the in-process parse outcome of the same text is the reference for "parses"',
]
FLOORS = {
    'quick': {'evaluations': 3000, 'json_compared': 900, 'failures_judged': 700, 'subprocess_runs': 40,
              'distinct_nontrivial': 500, 'nonfinite_json_compared': 100},
    'thorough': {'evaluations': 27000, 'json_compared': 11000, 'failures_judged': 9000, 'subprocess_runs': 400,
                 'distinct_nontrivial': 5000, 'nonfinite_json_compared': 2500},
}
BUDGET = {'quick': (5000, 64), 'thorough': (70000, 1000)}
TIMEOUT = {'quick': 600, 'thorough': 5400}


def run_main(argv):
    from hpl.cli import main

    out, err = io.StringIO(), io.StringIO()
    code = None
    with contextlib.redirect_stdout(out), contextlib.redirect_stderr(err):
        try:
            code = main(argv)
        except SystemExit as e:
            code = ('SystemExit', e.code)
        except BaseException as e:  # main must not leak
            code = ('raised', type(e).__name__)
    return code, out.getvalue(), err.getvalue()


def is_json_document(s):
    s = s.strip()
    if not s:
        return False
    try:
        json.loads(s)
        return True
    except ValueError:
        return False


def nonfinite_prop(rng, p):
    """conjoin a constant-bearing atom to some predicate so INF/NAN/-INF reach the JSON"""
    c = gen.pick(rng, (('const', 'INF'), ('const', 'NAN'), A.neg(('const', 'INF')),
                       ('set', (('const', 'NAN'), A.num('1'))), ('range', A.neg(('const', 'INF')), ('const', 'INF'), False, True),
                       A.num('1.7976931348623157e308'), A.neg(A.num('1.7976931348623157e308')), A.num('4.9e-324'),
                       A.num('1e308'), A.num('1e309'),  # finite extremes print as numbers, 1e309 is infinite
                       # integers no double holds exactly, and one beyond the range of doubles
                       A.num('9007199254740993'), A.num('18446744073709551615'), A.neg(A.num('36028797018963971')),
                       A.num('1' + '0' * 320 + '7')))
    atom = ('bin', 'in', A.fld('x'), c) if c[0] in ('set', 'range') else ('bin', '<', A.fld('x'), c)
    _, meta, scope, pat = p
    ev = pat[2]
    if ev[0] == 'disj':
        first = ev[1][0]
        first = ('ev', first[1], first[2], atom if first[3] is None else ('bin', 'and', first[3], atom))
        ev = ('disj', (first,) + ev[1][1:])
    else:
        ev = ('ev', ev[1], ev[2], atom if ev[3] is None else ('bin', 'and', ev[3], atom))
    return ('prop', meta, scope, ('pat', pat[1], ev, pat[3], pat[4]))


def wordy_prop(rng, p):
    """text-valued AST fields that spell the non-standard JSON constants (they must survive serialisation)"""
    word = gen.pick(rng, ('NaN', 'Infinity', '-Infinity', 'null', 'got NaN from driver', 'Infinity and beyond',
                          # words a shell, os.path or a format call would expand (HOME, PATH and HPLMON_WORD are set)
                          '$HOME', '${HOME}/x', '$PATH', '$HPLMON_WORD', '~', '~/x', '%s', '%(arg)s', '{0}', '{arg}'))
    _, meta, scope, pat = p
    k = rng.random()
    if k < 0.4:
        meta = tuple(m for m in meta if m[0] != 'title') + (('title', '"%s"' % word),)
    elif k < 0.8:
        atom = ('bin', gen.pick(rng, ('=', '!=')), A.fld(gen.pick(rng, ('status', 'NaN', 'Infinity'))), ('lit', 'str', '"%s"' % word))
        ev = pat[2]
        first = ev[1][0] if ev[0] == 'disj' else ev
        first = ('ev', first[1], first[2], atom if first[3] is None else ('bin', 'and', first[3], atom))
        ev = ('disj', (first,) + ev[1][1:]) if ev[0] == 'disj' else first
        pat = ('pat', pat[1], ev, pat[3], pat[4])
    else:
        meta = tuple(m for m in meta if m[0] != 'description') + (('description', '"%s"' % word),)
    return ('prop', meta, scope, pat)


def run(ctx):
    rng = ctx.rng
    n, nsub = BUDGET[ctx.tier]
    n, nsub = ctx.share(n), ctx.share(nsub)
    PP, PS = hplapi.parser('property'), hplapi.parser('specification')
    os.environ.setdefault('HOME', '/root')
    os.environ['HPLMON_WORD'] = 'expanded "word'
    tmp = tempfile.mkdtemp(prefix='hplmon-c19-', dir=os.environ.get('HPLMON_SCRATCH') or None)
    sub_done = 0
    pool = []
    try:
        for i in range(n):
            pg = gen.PropGen(rng, maxdepth=rng.randrange(1, 3), kw_names=0.1, max_width=3, const_preds=0.05)
            p, _, _ = pg.make(n=i)
            nonfinite = rng.random() < 0.25
            if nonfinite:
                p = nonfinite_prop(rng, p)
            if rng.random() < 0.3:
                p = p[:3] + (p[3][:4] + (None,),)  # untimed: max_time = inf
            if rng.random() < 0.2:
                p = wordy_prop(rng, p)
            pool.append(p)
            if len(pool) > 50:
                pool.pop(0)
            as_property = rng.random() < 0.5
            use_json = rng.random() < 0.6
            fault = None
            k = rng.random()
            if as_property and k > 0.9:
                # a well-formed multi-property specification handed to -p: not a property
                ps = [p] + [gen.pick(rng, pool) for _ in range(rng.randrange(1, 3))]
                toks = A.spec_tokens(ps)
                fault = 'specification-as-property'
            elif as_property:
                toks = A.prop_tokens(p)
            else:
                ps = [p] + [gen.pick(rng, pool) for _ in range(rng.randrange(0, 3))]
                toks = A.spec_tokens(ps)
            if k < 0.12:
                toks = gen.mutate_tokens(rng, toks, 1)
                fault = 'mutant'
            elif k < 0.18:
                toks = toks[:-1] + ['{', 'not', '(', 'x', '+', '1', ')', '}'] if toks[-1] not in ('s', 'ms', '}', ')') else toks + ['globally', ':', 'no', 'zz', '{', 'not', '(', 'x', '+', '1', ')', '}'] if not as_property else ['globally', ':', 'no', 'zz', '{', 'not', '(', 'x', '+', '1', ')', '}']
                fault = 'type'
            elif k < 0.24:
                toks = ['globally', ':', 'no', 'zz', '{', '@Nowhere', '.', 'x', '>', '1', '}']
                fault = 'sanity'
            text = A.layout(toks, rng, 'random' if rng.random() < 0.4 else 'space')
            if text.startswith('-'):
                ctx.skip('argument-looks-like-option')
                continue
            argv = []
            if use_json:
                argv += ['-o', 'json'] if rng.random() < 0.5 else ['--output', 'json']
            path_kind = None
            if as_property:
                argv += ['-p' if rng.random() < 0.5 else '--property', text]
                expected = hplapi.outcome(PP.parse, text)
            else:
                k2 = rng.random()
                path = os.path.join(tmp, f'spec{i % 7}.hpl')
                if k2 < 0.05:
                    path = os.path.join(tmp, 'missing', 'nope.hpl')
                    path_kind = 'missing'
                    expected = ('raise', FileNotFoundError())
                elif k2 < 0.08:
                    path = tmp
                    path_kind = 'directory'
                    expected = ('raise', IsADirectoryError())
                elif k2 < 0.11:
                    with open(path, 'wb') as f:
                        f.write(text.encode('utf8') + b'\xff\xfe')
                    path_kind = 'bad-utf8'
                    expected = ('raise', UnicodeDecodeError('utf-8', b'', 0, 1, 'x'))
                elif k2 < 0.14:
                    # a file with nothing in it, or only blanks / a comment sign: whatever the parser says about that
                    # text is what the tool must say
                    text = gen.pick(rng, ('', '\n', '   \n\t\n  ', '\r\n', '#', '# id: lonely\n'))
                    with open(path, 'w', encoding='utf8', newline='') as f:
                        f.write(text)
                    path_kind = 'blank'
                    expected = hplapi.outcome(PS.parse, text)
                    ctx.count('blank_files')
                else:
                    with open(path, 'w', encoding='utf8', newline='') as f:
                        f.write(text)
                    expected = hplapi.outcome(PS.parse, text)
                argv += [path]
            feats = {'api:cli', 'shape:' + ('p' if as_property else 'file'), 'shape:' + ('json' if use_json else 'plain')}
            ctx.begin_case(feats)
            should_pass = expected[0] == 'ok'
            use_sub = sub_done < nsub and rng.random() < 0.03
            if use_sub:
                sub_done += 1
                e = dict(os.environ)
                e['PYTHONPATH'] = env.SRC
                try:
                    r = subprocess.run([sys.executable, '-m', 'hpl'] + argv, capture_output=True, text=True,
                                       timeout=120, env=e, cwd=tmp)
                except subprocess.TimeoutExpired:
                    ctx.skip('subprocess-timeout')
                    continue
                code, out, err = r.returncode, r.stdout, r.stderr
                ctx.count('subprocess_runs')
            else:
                code, out, err = run_main(argv)
            sig = ('P' if as_property else 'F') + ('J' if use_json else '-') + f'|{fault or path_kind}|' + A.prop_shape(p) + f'|{hplapi.exc_class(expected)}'
            ctx.evaluation(sig, True)
            if i % 60 == 0:
                ctx.sample({'argv': [a[:200] for a in argv], 'exit': code, 'stdout': out[:200], 'stderr': err[:120],
                            'expected_parse': hplapi.exc_class(expected), 'subprocess': use_sub})
            w = {'argv': argv, 'exit': code, 'expected_parse': hplapi.exc_class(expected), 'subprocess': use_sub}
            if should_pass:
                if code != 0:
                    ctx.violation('exit-status', dict(w, stdout=out[:300], stderr=err[:300]), feats)
                    continue
                if use_json:
                    try:
                        doc = json.loads(out, parse_constant=jsonmirror.reject_constant)
                    except ValueError as ex:
                        ctx.violation('json-invalid', dict(w, error=str(ex)[:200], stdout=out[:300]), feats | {'out:nonfinite'} if nonfinite else feats)
                        continue
                    mirror = json.loads(json.dumps(jsonmirror.mirror(expected[1])))
                    ctx.count('json_compared')
                    if nonfinite:
                        ctx.count('nonfinite_json_compared')
                    if doc != mirror:
                        ctx.violation('json-differs', dict(w, diff=_first_diff(doc, mirror)), feats)
                elif out.strip():
                    ctx.count('plain_success_with_output')
            else:
                ctx.count('failures_judged')
                if code != 1:
                    ctx.violation('exit-status', dict(w, stdout=out[:300], stderr=err[:300]), feats)
                    continue
                if not (out.strip() or err.strip()):
                    ctx.violation('no-diagnostic', w, feats)
                if is_json_document(out):
                    ctx.violation('json-on-failure', dict(w, stdout=out[:300]), feats)
    finally:
        import shutil

        shutil.rmtree(tmp, ignore_errors=True)


def _first_diff(a, b, path='$'):
    if type(a) is not type(b) and not (isinstance(a, (int, float)) and isinstance(b, (int, float))):
        return f'{path}: {type(a).__name__} {str(a)[:60]!r} vs {type(b).__name__} {str(b)[:60]!r}'
    if isinstance(a, dict):
        if a.keys() != b.keys():
            return f'{path}: keys {sorted(set(a) ^ set(b))}'
        for k in a:
            d = _first_diff(a[k], b[k], f'{path}.{k}')
            if d:
                return d
        return None
    if isinstance(a, list):
        if len(a) != len(b):
            return f'{path}: length {len(a)} vs {len(b)}'
        for i, (x, y) in enumerate(zip(a, b)):
            d = _first_diff(x, y, f'{path}[{i}]')
            if d:
                return d
        return None
    return None if a == b else f'{path}: {a!r} vs {b!r}'
