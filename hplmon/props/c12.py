"""C12 - splitting a pattern over event alternatives preserves trace semantics."""
import itertools

from .. import absyn as A
from .. import gen, hplapi
from ..model import traces as TR

ID = 'C12'
LEVEL = 'exploration'
TECHNIQUE = ('runtime monitoring against an executable trace model: the real canonical_form() is applied to generated '
             'properties and input and outputs are evaluated by an independent reference semantics of scopes/patterns '
             'on every timed trace up to a length bound (two readings of scope re-activation); negative controls show '
             'that the model separates the decompositions the property forbids')
RULE = ('Properties: every scope kind x pattern kind x widths 1-3 in the non-activator positions over topics {a,b,c,d}, '
        'predicates over one payload field x in {0,1} (none, x = 0, x = 1, x = @Alias.x), aliases, time bounds in '
        '{none, 0 s, 1 s, 1500 ms, 2 s}; activator never a disjunction. Traces: all timed sequences up to length L over the '
        'topics of the property x payloads {0,1} x gaps {1,2} (L = 3 quick; L = 4 thorough, 5 for properties over '
        '<= 2 topics). evaluations = (property, trace, reading) triples; non-trivial = some width > 1 and the trace '
        'contains a split topic; distinct = (property shape, trace length, verdict). Exhaustive up to L.')
RULE_ADDED = ' Since the seeding rounds: bounds 0 s and 1500 ms, properties derived with but() from a canonicalised one, binding-sensitive mode, alternatives sharing one alias, a grid with the literal predicates { False } / { True } on every event position in turn, time-bound twins (the same events under another bound, one after the other).'
ASSUMPTIONS = ['trace semantics of DESIGN.md 4.2 (my reading of docs/lang.md): windows exclusive at both ends, bound '
               'measured from the window start (absence/existence) or from the trigger/behaviour (binary patterns); '
               'both readings R1 (first activation only) and R2 (re-activation) are run']
EXHAUSTIVE = {'quick': True, 'thorough': True}
FLOORS = {
    'quick': {'evaluations': 300000, 'distinct_nontrivial': 300, 'properties_judged': 120, 'split_properties': 80,
              'control:split-existence-behaviour': 1, 'control:split-response-behaviour': 1,
              'control:split-requirement-trigger': 1},
    'thorough': {'evaluations': 10000000, 'distinct_nontrivial': 2000, 'properties_judged': 1200,
                 'split_properties': 800, 'control:split-existence-behaviour': 1,
                 'control:split-response-behaviour': 1, 'control:split-requirement-trigger': 1},
}
BUDGET = {'quick': {'props': 1200, 'L': 3}, 'thorough': {'props': 2400, 'L': 4}}
TIMEOUT = {'quick': 900, 'thorough': 7200}
TOPICS = ('a', 'b', 'c', 'd')
SPLIT = {'no': 'behaviour', 'requires': 'behaviour', 'forbids': 'behaviour', 'causes': 'trigger', 'some': None}
X = A.fld('x')


def make_property(rng, sk, pk, widths, binding_sensitive=False):
    """abstract property over the small alphabet; activator simple.  binding_sensitive: earlier events get aliases
    and later predicates compare their payload with them (the value an alias is bound to - first activation,
    each trigger - then decides the verdict)"""
    order = gen.binding_order(sk, pk)
    bound = {}
    events = {}
    alias_pool = ['A', 'B', 'C', 'D', 'F', 'G', 'H', 'J', 'K', 'M', 'N', 'P']
    for pos, sees in order:
        w = 1 if pos == 'activator' else widths.get(pos, 1)
        visible = []
        for s in sees:
            visible += bound.get(s, [])
        tps = list(TOPICS)
        rng.shuffle(tps)
        alts = []
        mine = []
        shared = alias_pool.pop(0) if (w >= 2 and rng.random() < (0.4 if binding_sensitive else 0.15)) else None
        for i in range(w):
            alias = shared or (alias_pool.pop(0) if rng.random() < (0.9 if binding_sensitive else 0.5) else None)
            k = rng.random()
            pred = None
            if binding_sensitive and pos == 'activator' and k < 0.7:
                pred = None  # the activator matches messages of either payload: which one binds the alias matters
            elif binding_sensitive and visible and k < 0.75:
                pred = ('bin', gen.pick(rng, ('=', '!=')), X, ('field', A.var(gen.pick(rng, visible)), 'x'))
            elif k < 0.05:
                # predicates that are tautologies or contradictions without being literals
                a0 = ('bin', '=', X, A.num(str(rng.randrange(2))))
                pred = gen.pick(rng, (('bin', 'or', a0, A.not_(a0)), ('bin', '=', X, X), ('bin', 'implies', a0, a0),
                                      ('bin', 'and', a0, A.not_(a0)), ('bin', '<=', A.num('1'), A.num('2')),
                                      A.not_(('bin', 'and', a0, A.not_(a0)))))
            elif k < 0.25:
                pred = ('bin', '=', X, A.num(str(rng.randrange(2))))
            elif k < 0.55 and visible:
                pred = ('bin', gen.pick(rng, ('=', '!=')), X, ('field', A.var(gen.pick(rng, visible)), 'x'))
            elif k < 0.65 and alias:
                pred = ('bin', '=', ('field', A.var(alias), 'x'), A.num('1'))
            alts.append(('ev', tps[i], alias, pred))
            if alias:
                mine.append(alias)
        # only aliases bound by every alternative could be referenced later without the C14 known finding;
        # with distinct aliases per alternative that means: expose aliases of simple events only
        # ... or one alias shared by every alternative (each of them binds it)
        bound[pos] = mine if w == 1 else ([shared] if shared else [])
        events[pos] = alts[0] if w == 1 else ('disj', tuple(alts))
    tb = gen.pick(rng, (None, None, ('1', 's'), ('2', 's'), ('1', 's'), ('2', 's'), ('0', 's'), ('1500', 'ms')))
    if binding_sensitive and rng.random() < 0.7:
        tb = None
    return gen.assemble(sk, pk, events, tb)


def topics_of(p):
    ts = []
    for ev in A.prop_positions(p).values():
        for se in A.simple_events(ev):
            if se[1] not in ts:
                ts.append(se[1])
    return ts


def wrong_decomposition(PP, p, which):
    """negative controls: split a position the property says must not be split"""
    pos = A.prop_positions(p)
    ev = pos[which]
    outs = []
    for se in A.simple_events(ev):
        events = dict(pos)
        events[which] = se
        q = gen.assemble(p[2][1], p[3][1], events, p[3][4])
        o = hplapi.outcome(PP.parse, A.render_prop(q))
        if o[0] != 'ok':
            return None
        outs.append(o[1])
    return outs


def run(ctx):
    from hpl.rewrite import canonical_form

    rng = ctx.rng
    B = BUDGET[ctx.tier]
    PP = hplapi.parser('property')
    payloads = [{'x': 0}, {'x': 1}]
    trace_cache = {}

    def traces_for(topics, L):
        key = (tuple(topics), L)
        if key not in trace_cache:
            if len(trace_cache) > 6:
                trace_cache.clear()
            trace_cache[key] = list(TR.all_traces(topics, payloads, (1, 2), L))
        return trace_cache[key]

    cells = []
    for sk in gen.SCOPES:
        for pk in gen.PATTERNS:
            npos = [n for n, _ in gen.binding_order(sk, pk) if n != 'activator']
            for ws in itertools.product((1, 2, 3), repeat=len(npos)):
                cells.append((sk, pk, dict(zip(npos, ws))))
    n_props = ctx.share(B['props'])
    controls_detected = set()
    max_traces = 0
    prev_hp = None

    def cases():
        for n in range(n_props):
            sk, pk, widths = cells[(n * ctx.nshards + ctx.shard) % len(cells)]
            p0 = make_property(rng, sk, pk, widths, binding_sensitive=(
                n % 4 == 3 or (sk in ('after', 'after_until') and n % 4 != 0)))
            yield n, sk, pk, widths, p0
            if n % 3 == 0:
                # history: the same scope and events under another time bound (or none), right after the first one
                others = [t for t in (None, ('1', 's'), ('2', 's'), ('1500', 'ms')) if t != p0[3][4]]
                ctx.count('time_bound_twins')
                yield 1000003 + 3 * n, sk, pk, widths, gen.assemble(sk, pk, dict(A.prop_positions(p0)), gen.pick(rng, others))
        # constant grid: every event position in turn (all of its alternatives) carries the literal predicate
        # { False } or { True } - events that can never / always be observed
        n = n_props
        idx = 0
        for sk in gen.SCOPES:
            for pk in gen.PATTERNS:
                names = [q for q, _ in gen.binding_order(sk, pk)]
                for which in names:
                    for const in (False, True):
                        for w in (1, 2):
                            idx += 1
                            if not ctx.mine(idx):
                                continue
                            widths = {q: (w if q in (which, SPLIT[pk]) else 1) for q in names if q != 'activator'}
                            p0 = make_property(rng, sk, pk, widths)
                            pos = dict(A.prop_positions(p0))
                            ev = pos[which]
                            pos[which] = ('disj', tuple(('ev', se[1], se[2], A.boolean(const)) for se in ev[1])) \
                                if ev[0] == 'disj' else ('ev', ev[1], ev[2], A.boolean(const))
                            ctx.count('constant_grid_cases')
                            yield n, sk, pk, widths, gen.assemble(sk, pk, pos, p0[3][4])
                            n += 1

    for n, sk, pk, widths, p in cases():
        text = A.render_prop(p)
        feats = {'api:canonical_form', 'shape:' + sk, 'shape:' + pk}
        ctx.begin_case(feats)
        o = hplapi.outcome(PP.parse, text)
        if o[0] != 'ok':
            ctx.skip('rejected:' + hplapi.exc_class(o))
            continue
        hp = o[1]
        subject = hp
        if prev_hp is not None and n % 3 == 1:
            # history: the same property obtained as a modified copy of one that was canonicalised before
            od = hplapi.outcome(lambda: prev_hp.but(scope=hp.scope, pattern=hp.pattern))
            if od[0] == 'ok' and od[1] == hp:
                subject = od[1]
                feats.add('shape:derived-with-but')
                ctx.count('derived_with_but')
        oc = hplapi.outcome(canonical_form, subject)
        prev_hp = hp
        if oc[0] != 'ok':
            ctx.violation('canonical-raises', {'property': text, 'error': hplapi.exc_class(oc)}, feats | {'exc:' + hplapi.exc_class(oc)})
            continue
        outs = oc[1]
        cin = TR.CompiledProperty(hp)
        couts = [TR.CompiledProperty(q) for q in outs]
        tps = topics_of(p)
        L = B['L'] + (1 if len(tps) <= 2 and ctx.tier == 'thorough' else 0)
        if len(tps) >= 4 and L >= 4:
            L = 3 if ctx.tier == 'quick' else 4
        traces = traces_for(tps, L if len(tps) < 4 or ctx.tier == 'thorough' else min(L, 3))
        max_traces = max(max_traces, len(traces))
        split_pos = SPLIT[pk]
        split_topics = {se[1] for se in A.simple_events(A.prop_positions(p)[split_pos])} if split_pos else set()
        is_split = len(outs) > 1
        ctx.count('properties_judged')
        if is_split:
            ctx.count('split_properties')
        bad = None
        for reading in ('R1', 'R2'):
            for tr in traces:
                v_in = cin.holds(tr, reading)
                v_out = all(c.holds(tr, reading) for c in couts)
                nontriv = is_split and any(m[1] in split_topics for m in tr)
                ctx.evaluation(f'{A.prop_shape(p)}|{len(tr)}|{v_in}' if nontriv else None, nontriv)
                if v_in != v_out and bad is None:
                    bad = (reading, tr, v_in, v_out)
        if n % 25 == 0:
            ctx.sample({'property': text, 'canonical_form': [str(q)[:120] for q in outs][:4], 'traces': len(traces),
                        'max_length': L, 'example_trace': [(m[0], m[1], m[2]['x']) for m in traces[min(len(traces) - 1, 77)]],
                        'verdict': 'equivalent on every trace' if bad is None else 'differs'})
        if bad is not None:
            reading, tr, v_in, v_out = bad
            ctx.violation('semantics-changed', {'property': text, 'canonical_form': [str(q)[:200] for q in outs],
                                                'reading': reading, 'trace': [(m[0], m[1], m[2]['x']) for m in tr],
                                                'input_holds': v_in, 'all_outputs_hold': v_out}, feats)
        # negative controls: the decompositions the property excludes must be visible to the model
        for which, pats, label in (('behaviour', ('some',), 'split-existence-behaviour'),
                                   ('behaviour', ('causes',), 'split-response-behaviour'),
                                   ('trigger', ('requires',), 'split-requirement-trigger')):
            if pk in pats and widths.get(which, 1) > 1 and label not in controls_detected:
                wrong = wrong_decomposition(PP, p, which)
                if wrong:
                    cw = [TR.CompiledProperty(q) for q in wrong]
                    for tr in traces:
                        if cin.holds(tr, 'R1') != all(c.holds(tr, 'R1') for c in cw):
                            controls_detected.add(label)
                            break
    for label in controls_detected:
        ctx.count('control:' + label)
    ctx.count('traces_per_property_max', max_traces)


def coverage_extra(tier, counters):
    labels = sorted(k[8:] for k in counters if k.startswith('control:'))
    return {'negative_controls_detected': labels}
