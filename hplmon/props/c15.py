"""C15 - reference queries report exactly the references that occur."""
from .. import absyn as A
from .. import gen, hplapi, monitors, semantic as S

ID = 'C15'
LEVEL = 'exploration'
TECHNIQUE = ('runtime monitoring: every reference query of the real AST classes is called on every accepted generated '
             'tree; oracle = own walk over the attrs field lists (free/bound variable analysis, pre-order listing)')
RULE = ('Expressions, predicates, events, disjunctions (width 2-5), properties and specifications from the typed and '
        'untyped generators, with references (current message, alias, bound variable, free variable) placed in every '
        'child slot of every node kind (a slot-coverage matrix is measured). For each tree: external_references, '
        'contains_reference for every name in the tree and one fresh name, contains_self_reference, '
        'contains_definition, aliases, check_some_self_references and iterate are compared with the walk. Non-trivial '
        '= tree with >= 2 references of different kinds; distinct = shape.')
RULE_ADDED = ' Since the seeding rounds: contains_reference is also asked for names that do not occur but are spelled like ones that do (suffixes, prefixes, extensions, other case).'
ASSUMPTIONS = ['sibling order of a pattern\'s trigger/behaviour in iterate() is not judged',
               'contains_reference(a) means "@a occurs anywhere", bound or free, as the statement says']
FLOORS = {
    'quick': {'evaluations': 5000, 'distinct_nontrivial': 1200, 'queries_judged': 35000, 'slots_filled': 100,
              'events_judged': 2500, 'iterate_judged': 5000, 'quantified_trees': 350},
    'thorough': {'evaluations': 80000, 'distinct_nontrivial': 12000, 'queries_judged': 600000, 'slots_filled': 150,
                 'events_judged': 50000, 'iterate_judged': 80000, 'quantified_trees': 6000},
}
BUDGET = {'quick': {'exprs': 25000, 'props': 5000}, 'thorough': {'exprs': 1500000, 'props': 300000}}
TIMEOUT = {'quick': 900, 'thorough': 7200}


def coverage_extra(tier, counters):
    slots = sorted(k[5:] for k in counters if k.startswith('slot:'))
    return {'slot_coverage': {'distinct_slots': len(slots), 'slots': slots}}


def ref_slots(e):
    """(parent, slot, kind-of-reference) for every reference root in abstract tree e"""
    out = []

    def rec(x, parent, slot, bound):
        t = x[0]
        if t == 'this':
            out.append((parent, slot, 'this'))
        elif t == 'var':
            out.append((parent, slot, 'bound' if x[1] in bound else 'alias'))
        if t == 'quant':
            rec(x[3], 'quant', 0, bound)
            rec(x[4], 'quant', 1, bound | {x[2]})
            return
        tag = t + (':' + x[1] if t in ('un', 'bin', 'call') else '')
        for i, k in enumerate(A.children(x)):
            rec(k, tag, i, bound)

    rec(e, 'root', 0, frozenset())
    return out


def iterate_reference(root, flip_pattern=False):
    """ids in pre-order by attrs field order"""
    out = []
    stack = [root]
    while stack:
        x = stack.pop()
        out.append(id(x))
        kids = []
        for a in type(x).__attrs_attrs__:
            if a.name == 'metadata':
                continue
            v = getattr(x, a.name)
            if hasattr(type(v), '__attrs_attrs__') and getattr(v, 'is_expression', False) | getattr(v, 'is_predicate', False) | getattr(v, 'is_event', False) | getattr(v, 'is_scope', False) | getattr(v, 'is_pattern', False) | getattr(v, 'is_property', False):
                kids.append(v)
            elif isinstance(v, tuple):
                kids.extend(k for k in v if hasattr(type(k), '__attrs_attrs__') and hasattr(k, 'children'))
        if type(x).__name__ == 'HplPattern' and flip_pattern:
            kids.reverse()
        stack.extend(reversed(kids))
    return out


def fragments(names):
    """names that do NOT occur but are spelled like ones that do: proper suffixes, prefixes, extensions; one fresh"""
    out = ['Fresh_zz']
    for n in sorted(names):
        for f in (n[1:], n[-1:], n[:-1], n[:1], n + 'x', 'x' + n, n.lower(), n.upper()):
            if f and f not in names and f not in out and (f[0].isalpha() or f[0] == '_'):
                out.append(f)
    return out[:12]


def run(ctx):
    rng = ctx.rng
    B = BUDGET[ctx.tier]
    PE, PC, PP, PS = (hplapi.parser(k) for k in ('expression', 'condition', 'property', 'specification'))
    seen_slots = set()

    def q(feats, kind, w):
        ctx.violation(kind, w, feats)

    def judge_expr(h, e, text, feats, is_pred):
        cond = h.condition if is_pred else h
        nq = 0
        # external references
        exp_free = S.hpl_free_vars(cond)
        got = hplapi.outcome(h.external_references)
        nq += 1
        if got[0] != 'ok' or set(got[1]) != exp_free:
            q(feats, 'external-references', {'input': text, 'expected': sorted(exp_free),
                                            'observed': sorted(got[1]) if got[0] == 'ok' else repr(got[1])})
        names = S.hpl_all_var_names(cond)
        for a in sorted(names) + fragments(names):
            got = hplapi.outcome(h.contains_reference, a)
            nq += 1
            if got[0] != 'ok' or bool(got[1]) != (a in names):
                q(feats, 'contains-reference', {'input': text, 'alias': a, 'expected': a in names,
                                               'observed': repr(got[1])})
        got = hplapi.outcome(h.contains_self_reference)
        nq += 1
        if got[0] != 'ok' or bool(got[1]) != S.hpl_has_this(cond):
            q(feats, 'contains-self-reference', {'input': text, 'expected': S.hpl_has_this(cond), 'observed': repr(got[1])})
        if not is_pred:
            bound = S.hpl_bound_names(cond)
            for a in sorted(bound | names) + ['Fresh_zz']:
                got = hplapi.outcome(h.contains_definition, a)
                nq += 1
                if got[0] != 'ok' or bool(got[1]) != (a in bound):
                    q(feats, 'contains-definition', {'input': text, 'name': a, 'expected': a in bound,
                                                    'observed': repr(got[1])})
        elif type(h).__name__ == 'HplPredicateExpression' and S.hpl_has_this(cond) and not any(
                type(x).__name__ == 'HplFieldAccess' and type(x.message).__name__ == 'HplThisMessage' for x in S.E._walk(cond)):
            # the current message occurs only bare (roll(<this>), after a replacement): "own field" is left open
            ctx.skip('bare-this-only')
        elif type(h).__name__ == 'HplPredicateExpression':
            got = hplapi.outcome(h.check_some_self_references)
            nq += 1
            passed = got[0] == 'ok'
            if passed != S.hpl_has_this(cond) or (not passed and type(got[1]).__name__ != 'HplSanityError'):
                q(feats, 'own-field-check', {'input': text, 'expected_pass': S.hpl_has_this(cond),
                                            'observed': 'pass' if passed else type(got[1]).__name__})
        judge_iterate(h, text, feats)
        ctx.count('queries_judged', nq)

    def judge_iterate(h, text, feats):
        got = hplapi.outcome(lambda: [id(x) for x in h.iterate()])
        ctx.count('iterate_judged')
        if got[0] != 'ok':
            q(feats, 'iterate', {'input': text[:300], 'error': type(got[1]).__name__})
            return
        a = iterate_reference(h)
        if got[1] != a and got[1] != iterate_reference(h, flip_pattern=True):
            q(feats, 'iterate', {'input': text[:300], 'expected_nodes': len(a), 'observed_nodes': len(got[1]),
                                 'first_difference': next((i for i, (x, y) in enumerate(zip(a, got[1])) if x != y),
                                                          min(len(a), len(got[1])))})

    for n in range(ctx.share(B['exprs'])):
        if n % 3 == 0:
            e = gen.Untyped(rng, maxdepth=rng.randrange(1, 5), kw_names=0.05).cond(3)
            aliases = {}
        else:
            t = gen.pick(rng, (gen.BOOL, gen.BOOL, gen.NUM, gen.STR))
            case = S.random_case(rng, t, maxdepth=rng.randrange(1, 5), n_aliases=rng.choice((0, 1, 2)))
            e = case.e
        if not A.renderable(e):
            continue
        text = A.render_expr(e)
        as_pred = rng.random() < 0.35
        o = hplapi.outcome((PC if as_pred else PE).parse, text)
        feats = A.features(e) | {'api:queries'}
        ctx.begin_case(feats)
        if o[0] != 'ok':
            ctx.skip('rejected:' + type(o[1]).__name__)
            continue
        h = o[1]
        if as_pred and getattr(h, 'is_vacuous', False):
            # vacuous predicates: queries must all be empty/false
            for name, exp in (('external_references', set()), ('contains_self_reference', False)):
                got = hplapi.outcome(getattr(h, name))
                if got[0] != 'ok' or (set(got[1]) if name == 'external_references' else bool(got[1])) != exp:
                    q(feats, 'vacuous-queries', {'input': text, 'query': name, 'observed': repr(got[1])})
            continue
        slots = ref_slots(e)
        kinds = {k for _, _, k in slots}
        for parent, slot, k in slots:
            key = f'{parent}.{slot}/{k}'
            seen_slots.add(key)
            ctx.count('slot:' + key)
        ctx.evaluation(('p:' if as_pred else 'e:') + A.shape(e), len(slots) >= 2 and len(kinds) >= 2)
        if 'node:quant' in feats:
            ctx.count('quantified_trees')
        if n % 400 == 0:
            ctx.sample({'input': text[:200], 'external_references': sorted(S.hpl_free_vars(h.condition if as_pred else h)),
                        'reference_slots': [f'{p}.{s}/{k}' for p, s, k in slots][:8]})
        judge_expr(h, e, text, feats, as_pred)
        # history: the queries must also be exact on trees derived from an already queried tree
        if n % 2 == 0:
            from hpl import rewrite as RW
            names = sorted(S.hpl_all_var_names(h.condition if as_pred else h) - S.hpl_bound_names(h.condition if as_pred else h))
            derivations = [('replace_this_with_var', lambda: RW.replace_this_with_var(h, 'Qd'))]
            if names:
                derivations.append(('replace_var_with_this', lambda: RW.replace_var_with_this(h, names[0])))
                if not as_pred:
                    from hpl.ast import HplVarReference
                    derivations.append(('replace_var_reference', lambda: h.replace_var_reference(names[0], HplVarReference('@Zq'))))
            if not S.power_bomb(h):  # hpl folds astronomically large integer powers with Python big integers
                derivations.append(('simplify', lambda: RW.simplify(h)))
            for dname, thunk in derivations:
                od = hplapi.outcome(thunk)
                if od[0] != 'ok' or od[1] is h:
                    continue
                d = od[1]
                if getattr(d, 'is_predicate', False) and getattr(d, 'is_vacuous', False):
                    continue
                ctx.count('derived_trees_judged')
                judge_expr(d, e, f'{dname}({text})', feats | {'api:' + dname}, bool(getattr(d, 'is_predicate', False)))

    # events, properties, specifications
    pool = []
    for n in range(ctx.share(B['props'])):
        pg = gen.PropGen(rng, maxdepth=rng.randrange(1, 3), max_width=rng.choice((1, 2, 3, 5)), kw_names=0.05, const_preds=0.05)
        p, _, _ = pg.make(n=n)
        text = A.render_prop(p)
        o = hplapi.outcome(PP.parse, text)
        feats = {'api:queries', 'shape:property'}
        ctx.begin_case(feats)
        if o[0] != 'ok':
            ctx.skip('rejected:' + type(o[1]).__name__)
            continue
        hp = o[1]
        pool.append(text)
        ctx.evaluation('prop:' + A.prop_shape(p), True)
        pos = A.prop_positions(p)
        hev = {'activator': hp.scope.activator, 'terminator': hp.scope.terminator, 'trigger': hp.pattern.trigger,
               'behaviour': hp.pattern.behaviour}
        nq = 0
        for name, ev in pos.items():
            h = hev[name]
            ctx.count('events_judged')
            alts = A.simple_events(ev)
            exp_aliases = tuple(a[2] for a in alts if a[2] is not None)
            got = hplapi.outcome(h.aliases)
            nq += 1
            if got[0] != 'ok' or tuple(got[1]) != exp_aliases:
                q(feats, 'aliases', {'input': text, 'position': name, 'expected': list(exp_aliases), 'observed': repr(got[1])})
            exp_ext = set()
            exp_self = False
            allnames = set()
            for a in alts:
                if a[3] is not None:
                    exp_ext |= A.free_vars(a[3]) - ({a[2]} if a[2] else set())
                    own = A.replace_var(a[3], a[2], A.THIS) if a[2] else a[3]
                    exp_self = exp_self or A.has_this(own)
                    allnames |= A.all_vars(own)
            got = hplapi.outcome(h.external_references)
            nq += 1
            if got[0] != 'ok' or set(got[1]) != exp_ext:
                q(feats, 'external-references', {'input': text, 'position': name, 'expected': sorted(exp_ext),
                                                'observed': repr(got[1])})
            got = hplapi.outcome(h.contains_self_reference)
            nq += 1
            if got[0] != 'ok' or bool(got[1]) != exp_self:
                q(feats, 'contains-self-reference', {'input': text, 'position': name, 'expected': exp_self, 'observed': repr(got[1])})
            for a in sorted(allnames) + fragments(allnames):
                got = hplapi.outcome(h.contains_reference, a)
                nq += 1
                if got[0] != 'ok' or bool(got[1]) != (a in allnames):
                    q(feats, 'contains-reference', {'input': text, 'position': name, 'alias': a,
                                                   'expected': a in allnames, 'observed': repr(got[1])})
            se = hplapi.outcome(lambda: [x.name for x in h.simple_events()])
            nq += 1
            if se[0] != 'ok' or se[1] != [a[1] for a in alts]:
                q(feats, 'simple-events', {'input': text, 'position': name, 'observed': repr(se[1])})
        ctx.count('queries_judged', nq)
        judge_iterate(hp, text, feats)
        # disjunction trees of every shape (only the constructors can build left-nested or balanced ones)
        for name, ev in pos.items():
            if ev[0] != 'disj':
                continue
            variants = [(nst, ev) for nst in (('left', 'balanced', rng, 'derived') if len(ev[1]) >= 3 else ('derived',))]
            if n % 3 == 0:
                # alternatives may share one alias (each binds it for the events that follow)
                shared = tuple(('ev', a[1], 'Sh', A.replace_var(a[3], a[2], A.var('Sh')) if (a[3] is not None and a[2]) else a[3])
                               if (a[2] is not None or rng.random() < 0.5) else a for a in ev[1])
                variants.append(('right', ('disj', shared)))
            for nst, ev in variants:
                hplapi.NESTING[0] = nst
                try:
                    ob = hplapi.outcome(hplapi.build_event, ev)
                finally:
                    hplapi.NESTING[0] = 'right'
                if ob[0] != 'ok':
                    continue
                h = ob[1]
                ctx.count('api_built_disjunctions')
                alts = ev[1]
                got = hplapi.outcome(h.aliases)
                if got[0] != 'ok' or tuple(got[1]) != tuple(a[2] for a in alts if a[2] is not None):
                    q(feats, 'aliases', {'input': A.render_event(ev), 'nesting': nst if isinstance(nst, str) else 'random',
                                         'observed': repr(got[1])})
                se = hplapi.outcome(lambda: [str(x.name) for x in h.simple_events()])
                if se[0] != 'ok' or se[1] != [a[1] for a in alts]:
                    q(feats, 'simple-events', {'input': A.render_event(ev), 'nesting': nst if isinstance(nst, str) else 'random',
                                               'observed': repr(se[1])})
                judge_iterate(h, A.render_event(ev), feats)
        if n % 20 == 0 and pool:
            k = rng.randrange(1, 4)
            stext = '\n'.join(gen.pick(rng, pool) for _ in range(k))
            os_ = hplapi.outcome(PS.parse, stext)
            if os_[0] == 'ok':
                judge_iterate(os_[1], stext, {'api:queries', 'shape:specification'})
    ctx.count('slots_filled', len(seen_slots))
