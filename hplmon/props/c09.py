"""C09 - split_and returns an equivalent list of indivisible conjuncts."""
from .. import absyn as A
from .. import gen, hplapi, semantic as S, shrink
from ..model import eval as E
from ..model import typing as TYB

ID = 'C09'
LEVEL = 'exploration'
TECHNIQUE = ('runtime monitoring: the real split_and() is driven on generated boolean terms; oracle = reference '
             'evaluator (conjunction of the parts vs the input on complete truth tables and small domains incl. the '
             'empty one) + shape predicates on every returned part + ValueError licence')
RULE = ('Boolean expressions and predicates: exhaustive propositional-plus-quantifier grammar (not, and, or, implies, '
        'forall, exists over atoms p, q, True, False, r(@i), s(@i), zs[@i] > 0; <= 2 connectives fully and 3 sampled in quick, <= 3 '
        'fully in thorough) and random typed terms biased to conjunctions under negations, implications and nested '
        'quantifiers. Valuations: complete truth tables x array domains {[], [0], [0,1], [1,2]}, set and range domains '
        'incl. empty ranges. Non-trivial = >= 2 parts or a transformed part; distinct = input shape.')
RULE_ADDED = ' Since the seeding rounds: histories through but(); the constant predicates { True } / { False } however obtained (parsed, folded by simplify, negated, constructed).'
ASSUMPTIONS = ['reference evaluator of DESIGN.md 4.1; ValueError is licensed when the input is false on every '
               'valuation of the grid on which it is defined']
FLOORS = {
    'quick': {'evaluations': 8000, 'terms_judged': 8000, 'distinct_nontrivial': 2500, 'valuations_judged': 80000,
              'parts_checked': 10000, 'quantified_terms': 2500, 'value_errors_judged': 150},
    'thorough': {'evaluations': 120000, 'terms_judged': 120000, 'distinct_nontrivial': 30000,
                 'valuations_judged': 1200000, 'parts_checked': 150000, 'quantified_terms': 40000,
                 'value_errors_judged': 2000},
}
BUDGET = {'quick': {'random': 20000, 'k3_sample': 0.1, 'envs': 16},
          'thorough': {'random': 900000, 'k3_sample': 1.0, 'envs': 32}}
TIMEOUT = {'quick': 900, 'thorough': 7200}

THIS = ('msg', {'p': gen.BOOL, 'q': gen.BOOL, 'xs': ('arr', gen.NUM, -1), 'ys': ('arr', gen.NUM, -1), 'x': gen.NUM,
                'zs': ('arr', gen.NUM, -1)}, {})
ATOMS0 = (A.fld('p'), A.fld('q'), A.boolean(True), A.boolean(False))
DOMAINS = (A.fld('xs'), A.fld('xs'), A.fld('ys'), ('set', (A.num('0'), A.num('1'))),
           ('range', A.num('0'), A.num('1'), False, False), ('range', A.num('0'), A.num('1'), True, True),
           ('range', A.num('1'), A.fld('x'), False, False))


def atoms(scope):
    out = list(ATOMS0)
    for v in scope:
        out.append(('bin', '>', A.var(v), A.num('0')))
        out.append(('bin', '<', A.var(v), A.num('1')))
        # the bound variable occurring only inside an index (zs has three members on the whole grid)
        out.append(('bin', '>', ('index', A.fld('zs'), A.var(v)), A.num('0')))
    return out


def formulas(k, scope=()):
    """all formulas with exactly k connectives; quantifier domains are placeholders ('D',)"""
    if k == 0:
        for a in atoms(scope):
            yield a
        return
    for f in formulas(k - 1, scope):
        yield A.not_(f)
    v = 'ij'[len(scope)] if len(scope) < 2 else None
    if v is not None:
        for q in ('forall', 'exists'):
            for f in formulas(k - 1, scope + (v,)):
                yield ('quant', q, v, ('D',), f)
    for op in ('and', 'or', 'implies'):
        for i in range(k):
            for a in formulas(i, scope):
                for b in formulas(k - 1 - i, scope):
                    yield ('bin', op, a, b)


def hot(f):
    """three-connective shapes that are always enumerated: a quantifier directly over a negated binary connective and
    a negated quantifier over a binary connective (where the splitters push negations through binders)"""
    if f[0] == 'quant' and f[4][0] == 'un' and f[4][1] == 'not' and f[4][2][0] == 'bin':
        return True
    if f[0] == 'quant' and f[4][0] == 'bin' and 'quant' in (f[4][2][0], f[4][3][0]):
        return True  # a quantifier over a connective one of whose operands is itself a quantifier
    if f[0] == 'quant' and f[4][0] == 'quant' and f[4][4][0] == 'bin':
        return True  # two nested quantifiers over a connective
    return f[0] == 'un' and f[1] == 'not' and f[2][0] == 'quant' and f[2][4][0] == 'bin'


def fill_domains(e, rng, outer=None, outer_var=None):
    """nested quantifiers range over the domain of the enclosing one half of the time"""
    if e == ('D',):
        if outer_var is not None and rng.random() < 0.4:
            # a literal domain that depends on the enclosing quantifier's variable
            return gen.pick(rng, (('set', (A.num('1'), A.var(outer_var))), ('range', A.num('0'), A.var(outer_var), False, False),
                                  ('set', (A.var(outer_var),))))
        if outer is not None and rng.random() < 0.5:
            return outer
        return gen.pick(rng, DOMAINS)
    ks = A.children(e) if e[0] != 'quant' else None
    if e[0] == 'quant':
        d = fill_domains(e[3], rng, outer, outer_var)
        return ('quant', e[1], e[2], d, fill_domains(e[4], rng, d, e[2]))
    if not ks:
        return e
    return A.rebuild(e, [fill_domains(k, rng, outer, outer_var) for k in ks])


def grid(rng, n_random=0):
    envs = []
    for p in (True, False):
        for q in (True, False):
            for xs in ([], [0], [0, 1], [1, 2]):
                envs.append(E.Env({'p': p, 'q': q, 'xs': xs, 'ys': [] if xs else [1], 'x': len(xs), 'zs': [1, 0, 2]}, {}))
    return envs


def is_op(h, tok):
    return type(h).__name__ in ('HplUnaryOperator', 'HplBinaryOperator') and h.operator.token == tok


def forbidden_shape(part):
    """name of the forbidden shape of a returned part, or None"""
    if is_op(part, 'and'):
        return 'conjunction'
    if is_op(part, 'not'):
        a = part.operand
        if is_op(a, 'or'):
            return 'negated-disjunction'
        if is_op(a, 'implies'):
            return 'negated-implication'
        if is_op(a, 'not'):
            return 'double-negation'
        if type(a).__name__ == 'HplQuantifier' and a.is_existential:
            return 'negated-existential'
    if type(part).__name__ == 'HplQuantifier' and part.is_universal and is_op(part.condition, 'and'):
        return 'universal-over-conjunction'
    return None


def judge(case, envs):
    from hpl.rewrite import split_and

    h = case.h
    hin = h.condition if getattr(h, 'is_predicate', False) else h
    o = hplapi.outcome(split_and, h)
    readings = S.readings_for(hin)
    if o[0] != 'ok':
        exc = o[1]
        if isinstance(exc, ValueError) and type(exc).__name__ == 'ValueError':
            f = E.compile_expr(hin, True)
            sat = False
            for env in envs:
                st, v = E.run(f, env)
                if st == 'ok' and v is True:
                    sat = True
                    break
            if sat:
                return ('valueerror-on-satisfiable', {'message': str(exc)[:160]}, 0, 0, {}, 'raise')
            return (None, {}, 0, 0, {}, 'valueerror')
        return ('split-raises', {'error': type(exc).__name__, 'message': str(exc)[:160]}, 0, 0, {}, 'raise')
    parts = o[1]
    if not isinstance(parts, list):
        return ('not-a-list', {'result': type(parts).__name__}, 0, 0, {}, 'ok')
    for i, part in enumerate(parts):
        if not getattr(part, 'is_expression', False):
            return ('part-not-expression', {'part': repr(part)[:100]}, len(parts), 0, {}, 'ok')
        if not part.can_be_bool:
            return ('part-not-boolean', {'part': str(part)[:100], 'type': str(part.data_type)}, len(parts), 0, {}, 'ok')
        bad = forbidden_shape(part)
        if bad:
            return ('part-divisible', {'shape': bad, 'part': str(part)[:160]}, len(parts), 0, {}, 'ok')
    readings = S.readings_for(hin, *parts)
    cmp = S.compare_values(S.compile_all(hin, True, readings), S.conj_compile(parts, readings), envs)
    if cmp.witness is not None:
        d = dict(cmp.witness)
        d['parts'] = [str(p)[:120] for p in parts][:6]
        return ('not-equivalent', d, len(parts), cmp.judged, cmp.skipped, 'ok')
    return (None, {'parts': [str(p)[:80] for p in parts][:6]}, len(parts), cmp.judged, cmp.skipped, 'ok')


def run(ctx):
    rng = ctx.rng
    B = BUDGET[ctx.tier]

    def handle(case, envs, sig, origin):
        feats = A.features(case.e) | {'api:split_and', 'shape:' + origin}
        ctx.begin_case(feats)
        o = case.parse()
        if o[0] != 'ok':
            ctx.skip('rejected:' + type(o[1]).__name__)
            return
        kind, detail, nparts, judged, skipped, how = judge(case, envs)
        for k, v in skipped.items():
            ctx.skip(k, v)
        hin = case.h.condition if getattr(case.h, 'is_predicate', False) else case.h
        transformed = nparts >= 2 or (nparts == 1 and kind is None and how == 'ok' and len(detail.get('parts', [''])[0]) and detail['parts'][0] != str(hin)[:80])
        ctx.evaluation(sig, transformed)
        ctx.count('terms_judged')
        ctx.count('parts_checked', nparts)
        ctx.count('valuations_judged', judged)
        if 'node:quant' in feats:
            ctx.count('quantified_terms')
        if how == 'valueerror':
            ctx.count('value_errors_judged')
        if ctx.evaluations % 500 == 1:
            ctx.sample({'input': case.text[:200], 'parts': detail.get('parts'), 'valuations_judged': judged,
                        'verdict': kind or ('ValueError (input false on the whole grid)' if how == 'valueerror'
                                            else 'conjunction of parts equals input')})
        if kind is None and how == 'ok' and ctx.evaluations % 3 == 0:
            # history: split_and on a tree derived (but()) from the one just split
            import types
            for label, h2 in S.derive_with_but(case.h, 1):
                k2, d2, n2, j2, sk2, how2 = judge(types.SimpleNamespace(h=h2), envs)
                ctx.count('derived_judged')
                ctx.count('valuations_judged', j2)
                if k2 is not None:
                    w2 = {'input': case.text, 'level': case.level, 'history': f'split_and(input); input.but(...) [{label}] = {str(h2)[:200]}; split_and(derived)'}
                    w2.update(d2)
                    ctx.violation(k2, w2, feats | {'shape:derived-with-but'})
                    return
        if kind is None:
            return
        w = {'input': case.text, 'level': case.level}
        w.update(detail)

        def shrinker():
            def fails(c):
                cc = S.Case(c, case.this, case.aliases, case.level)
                if cc.parse()[0] != 'ok':
                    return False
                hc = cc.h.condition if getattr(cc.h, 'is_predicate', False) else cc.h
                if not TYB.is_well_typed(c, case.this, case.aliases, ('bool',)):
                    return False  # the minimised witness must stay a boolean term of the property's domain
                return judge(cc, envs)[0] == kind
            m = shrink.shrink_expr(case.e, fails)
            cc = S.Case(m, case.this, case.aliases, case.level)
            cc.parse()
            d2 = judge(cc, envs)[1]
            w2 = {'input': cc.text, 'level': case.level}
            w2.update(d2)
            return (w2, A.features(m) | {'api:split_and'})

        ctx.violation(kind, w, feats, shrinker)

    envs = grid(rng)
    if ctx.shard == 0:
        # the two constant predicates, however obtained (parsed, folded by simplify, negated): { True } has nothing to
        # split, { False } is unsatisfiable
        import types
        from hpl.ast import HplContradiction, HplVacuousTruth
        from hpl.parser import parse_condition, parse_predicate
        from hpl.rewrite import simplify
        makers = [('parse_predicate("{ False }")', lambda: parse_predicate('{ False }')),
                  ('parse_predicate("{ True }")', lambda: parse_predicate('{ True }')),
                  ('parse_condition("False")', lambda: parse_condition('False')),
                  ('parse_condition("True")', lambda: parse_condition('True')),
                  ('simplify({ x > 0 and False })', lambda: simplify(parse_predicate('{ x > 0 and False }'))),
                  ('simplify({ x > 0 or True })', lambda: simplify(parse_predicate('{ x > 0 or True }'))),
                  ('simplify({ not (1 < 2) })', lambda: simplify(parse_predicate('{ not (1 < 2) }'))),
                  ('HplVacuousTruth().negate()', lambda: HplVacuousTruth().negate()),
                  ('HplContradiction().negate()', lambda: HplContradiction().negate()),
                  ('HplContradiction()', HplContradiction), ('HplVacuousTruth()', HplVacuousTruth)]
        for label, mk in makers:
            om = hplapi.outcome(mk)
            if om[0] != 'ok' or not getattr(om[1], 'is_predicate', False):
                continue
            feats = {'api:split_and', 'shape:constant-predicate'}
            ctx.begin_case(feats)
            kind, detail, nparts, judged, skipped, how = judge(types.SimpleNamespace(h=om[1]), envs)
            ctx.evaluation('constpred|' + label, True)
            ctx.count('constant_predicates_judged')
            ctx.count('valuations_judged', judged)
            if kind is not None:
                w = {'input': label, 'level': 'predicate', 'object': str(om[1])}
                w.update(detail)
                ctx.violation(kind, w, feats)
    idx = 0
    for k in range(0, 4):
        for f in formulas(k):
            idx += 1
            if not ctx.mine(idx):
                continue
            if k == 3 and not hot(f) and rng.random() > B['k3_sample']:
                continue
            e = fill_domains(f, rng)
            level = 'predicate' if (rng.random() < 0.2 and A.has_this(e)) else 'expression'
            handle(S.Case(e, THIS, {}, level), envs, 'ss:' + A.shape(e), 'smallscope')
            ctx.count('smallscope_terms')

    for n in range(ctx.share(B['random'])):
        case = S.random_case(rng, gen.BOOL, maxdepth=rng.randrange(2, 6), bias='simplify' if n % 2 else 'plain')
        e = case.e
        # bias: wrap in the connectives split_and works on
        r = rng.random()
        if r < 0.25:
            other = gen.Typed(rng, this=case.this, aliases=case.aliases, maxdepth=2).bool(2)
            e = ('bin', 'and', e, other)
        elif r < 0.45:
            other = gen.Typed(rng, this=case.this, aliases=case.aliases, maxdepth=2).bool(2)
            e = A.not_(('bin', gen.pick(rng, ('or', 'implies')), e, other))
        elif r < 0.55:
            e = A.not_(A.not_(e))
        case.e = e
        if not A.renderable(e):
            ctx.skip('not-renderable')
            continue
        if rng.random() < 0.25 and A.has_this(e):
            case.level = 'predicate'
        handle(case, S.envs_for(rng, case, B['envs']), 'r:' + A.shape(e), 'random')
