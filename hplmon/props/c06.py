"""C06 - printing a parsed AST and parsing it again gives the same AST."""
from .. import absyn as A
from .. import gen, hplapi, monitors, shrink
from ..runner import h64

ID = 'C06'
LEVEL = 'exploration'
TECHNIQUE = ('runtime monitoring: str() and the real parsers are driven on every accepted generated text; oracle = '
             'equality, hash, NaN-proof snapshot equality, print idempotence and injectivity of the printed form')
RULE = ('Every accepted generated text (typed expressions/predicates with every node kind incl. all built-in '
        'functions and constants, properties over all scope x pattern kinds with disjunction widths 1-5 and time '
        'bounds from 1e-9 s to 1e20 s in s and ms, specifications of 1-6 properties) is parsed, printed with '
        'str(), re-parsed with the same entry point and compared: ==, hash, snapshot, second print; the corpus is '
        'grouped by printed text to detect two different ASTs with one text. Non-trivial = AST with >= 1 operator, '
        'call, quantifier or >= 2 events; distinct = distinct shape signature.')
RULE_ADDED = ' Since the seeding rounds: constant predicates, signed constants, overflowing and non-canonical number spellings (also as indices), x[i][j] chains (every chain round-tripped), own-alias-only constructs, human-written corpus.'
ASSUMPTIONS = [
    'a predicate is re-parsed with the predicate parser (its printed form carries braces), everything else with '
    'the entry point that produced it',
]
FLOORS = {
    'quick': {'evaluations': 6000, 'roundtrips_judged': 6000, 'distinct_nontrivial': 1500, 'props_judged': 2000,
              'calls_judged': 300, 'disj3_judged': 200, 'subsecond_judged': 200},
    'thorough': {'evaluations': 150000, 'roundtrips_judged': 150000, 'distinct_nontrivial': 20000,
                 'props_judged': 40000, 'calls_judged': 5000, 'disj3_judged': 4000, 'subsecond_judged': 4000},
}
BUDGET = {
    'quick': {'exprs': 12000, 'props': 8000, 'specs': 600, 'refs': 1},
    'thorough': {'exprs': 700000, 'props': 400000, 'specs': 30000, 'refs': 1},
}
TIME_NUMS = ('1', '5', '10', '100', '0.5', '0.1', '250', '3.5', '1000', '0.001', '72.33', '0.07233', '1e9', '1e20',
             '60', '0.25', '2.5', '33', '7', '1e-3', '12.5', '999', '1e-9', '0.3', '.75', '0.29', '1.1', '57', '0.57',
             '4.35', '1e-6', '123456789', '0.007', '8.2', '16.1', '0', '0.0', '0e0', '1e-320')


def expr_features(e):
    return A.features(e)


def prop_features(p):
    fs = set()
    for ev in A.prop_positions(p).values():
        if len(A.simple_events(ev)) >= 3:
            fs.add('shape:disjunction-width>=3')
        for se in A.simple_events(ev):
            if se[3] is not None:
                fs |= A.features(se[3])
    tb = p[3][4]
    if tb is not None:
        v = float(tb[0]) / (1000.0 if tb[1] == 'ms' else 1.0)
        if v < 1.0:
            fs.add('shape:subsecond-bound')
    return fs


def roundtrip(parser, reparser, text):
    """Returns (kind or None, detail, ast, printed)."""
    o = hplapi.outcome(parser.parse, text)
    if o[0] != 'ok':
        return ('rejected', type(o[1]).__name__, None, None)
    a = o[1]
    try:
        s = str(a)
    except Exception as e:
        return ('print-raises', f'{type(e).__name__}: {e}', a, None)
    o2 = hplapi.outcome(reparser.parse, s)
    if o2[0] != 'ok':
        return ('reparse-fails', f'{type(o2[1]).__name__}: {str(o2[1])[:160]} | printed: {s[:300]}', a, s)
    b = o2[1]
    snap_eq = monitors.snapshot(a, with_meta=False) == monitors.snapshot(b, with_meta=False)
    if not snap_eq:
        return ('reparse-differs', f'printed: {s[:300]} | reprinted: {str(b)[:300]}', a, s)
    if not (a == b):
        return ('reparse-neq', f'structurally identical but == is False; printed: {s[:300]}', a, s)
    if hash(a) != hash(b):
        return ('reparse-hash', f'printed: {s[:300]}', a, s)
    s2 = str(b)
    if s2 != s:
        return ('reprint-differs', f'{s[:300]} | {s2[:300]}', a, s)
    return (None, None, a, s)


class Collisions:
    def __init__(self):
        self.seen = {}

    def check(self, level, printed, ast):
        key = (level, printed)
        snap = h64(repr(monitors.snapshot(ast, with_meta=False)))
        prev = self.seen.get(key)
        if prev is None:
            self.seen[key] = snap
            return False
        return prev != snap


def run(ctx):
    rng = ctx.rng
    B = BUDGET[ctx.tier]
    P = {k: hplapi.parser(k) for k in ('specification', 'property', 'predicate', 'condition', 'expression')}
    REPARSE = {'specification': 'specification', 'property': 'property', 'predicate': 'predicate',
               'condition': 'predicate', 'expression': 'expression'}
    coll = Collisions()

    def judge(level, text, feats, sig, nontrivial, shrinker):
        ctx.begin_case(feats)
        kind, detail, ast, printed = roundtrip(P[level], P[REPARSE[level]], text)
        if kind == 'rejected':
            ctx.skip('rejected:' + detail)
            return False
        ctx.evaluation(sig, nontrivial)
        ctx.count('roundtrips_judged')
        ctx.sample({'level': level, 'text': text[:300], 'printed': (printed or '')[:300], 'verdict': kind or 'ok'})
        if kind is not None:
            ctx.violation(kind, {'level': level, 'text': text, 'detail': detail}, feats,
                          (lambda: shrinker(kind)) if shrinker else None)
            return True
        if coll.check(REPARSE[level], printed, ast):
            ctx.violation('print-collision', {'level': level, 'text': text, 'printed': printed}, feats)
        return True

    # expressions and predicates
    for n in range(ctx.share(B['exprs'])):
        sch = gen.random_schema(rng, depth=2, kw_names=0.2 if n % 6 == 0 else 0.0)
        al = {gen.pick(rng, gen.ALIASES): gen.random_schema(rng, depth=1)} if rng.random() < 0.4 else {}
        tg = gen.Typed(rng, this=sch, aliases=al, maxdepth=rng.randrange(1, 6), small_literals=rng.random() < 0.6)
        t = gen.pick(rng, (gen.BOOL, gen.BOOL, gen.NUM, gen.STR))
        e = tg.prim(t, tg.maxdepth)
        if n % 9 == 0:
            # make sure every constant and function shows up often
            c = ('const', gen.pick(rng, A.CONSTS))
            if rng.random() < 0.2:
                c = A.num(gen.pick(rng, ('1e999', '1e308', '1e-400', '0.0', '007')))  # overflowing / degenerate spellings
            k9 = rng.random()
            if k9 < 0.35:
                c = A.neg(c)  # a sign directly on a constant
            elif k9 < 0.45:
                c = A.neg(A.neg(c))
            if t == gen.BOOL:
                e = ('bin', '<', ('bin', '+', tg.num(1), c), tg.num(1)) if rng.random() < 0.6 else ('bin', gen.pick(rng, ('>', '<=', '=')), tg.num(1), c)
        if n % 5 == 0:
            # legal but non-canonical spellings of number literals, wherever they occur (indices included)
            respell = {'0': ('00', '0.0', '0e0'), '1': ('01', '1.0', '1e0', '1.'), '2': ('002', '2.0', '2.', '0.2e1'),
                       '3': ('03', '3.0'), '10': ('1e1', '10.0', '010')}

            def odd(x):
                if x[0] == 'lit' and x[1] == 'num' and x[2] in respell and rng.random() < 0.5:
                    return ('lit', 'num', gen.pick(rng, respell[x[2]]))
                return x
            e = A.subst(e, odd)
        if not A.renderable(e):
            ctx.skip('not-renderable')
            continue
        level = 'expression' if t != gen.BOOL else gen.pick(rng, ('expression', 'predicate', 'condition'))
        toks = A.expr_tokens(e)
        if level == 'predicate':
            toks = ['{'] + toks + ['}']
        feats = expr_features(e) | {'api:' + level}
        text = A.layout(toks, rng, 'random')

        def shrinker(kind, e=e, level=level):
            def fails(c):
                if not A.renderable(c):
                    return False
                tk = A.expr_tokens(c)
                if level == 'predicate':
                    tk = ['{'] + tk + ['}']
                return roundtrip(P[level], P[REPARSE[level]], A.layout(tk))[0] == kind
            m = shrink.shrink_expr(e, fails)
            tk = A.expr_tokens(m)
            if level == 'predicate':
                tk = ['{'] + tk + ['}']
            return ({'level': level, 'text': A.layout(tk)}, expr_features(m) | {'api:' + level})

        if judge(level, text, feats, f'{level[0]}:' + A.shape(e), A.size(e) > 1, shrinker):
            if 'node:call' in feats:
                ctx.count('calls_judged')

    # properties
    props = []
    for n in range(ctx.share(B['props'])):
        pg = gen.PropGen(rng, maxdepth=rng.randrange(1, 4), kw_names=0.2 if n % 5 == 0 else 0.0,
                         max_width=rng.choice((2, 3, 5)), const_preds=0.08)
        p, _, _ = pg.make(n=n)
        if rng.random() < 0.7:
            p = p[:3] + (p[3][:4] + ((gen.pick(rng, TIME_NUMS), gen.pick(rng, ('s', 'ms'))),),)
        own_alias_use = None
        if n % 6 == 0:
            # the event's own alias used bare (the current message as a function argument) or on a field named like a
            # constant: both are only expressible through the alias
            pos = A.prop_positions(p)
            cands = [(q, i) for q, ev in pos.items() for i, se in enumerate(A.simple_events(ev)) if se[2] is not None]
            if cands:
                q, i = gen.pick(rng, cands)
                alts = list(A.simple_events(pos[q]))
                a = alts[i][2]
                own_alias_use = gen.pick(rng, ('bare-message', 'constant-named-field'))
                atom = (('bin', '>', ('call', gen.pick(rng, ('roll', 'pitch', 'yaw')), (A.var(a),)), A.num('0'))
                        if own_alias_use == 'bare-message' else
                        ('bin', '>', ('field', A.var(a), gen.pick(rng, ('E', 'PI', 'INF', 'NAN'))), A.num('0')))
                pred = atom if alts[i][3] is None else ('bin', 'and', alts[i][3], atom)
                alts[i] = ('ev', alts[i][1], a, pred)
                events = dict(pos)
                events[q] = alts[0] if pos[q][0] != 'disj' else ('disj', tuple(alts))
                p = gen.assemble(p[2][1], p[3][1], events, p[3][4], p[1])
        props.append(p)
        feats = prop_features(p) | {'api:property'}
        if own_alias_use:
            feats.add('shape:own-alias-' + own_alias_use)
        text = A.layout(A.prop_tokens(p), rng, 'random')

        def shrinker(kind, p=p):
            m = shrink.shrink_prop(p, lambda c: roundtrip(P['property'], P['property'],
                                                          A.render_prop(c))[0] == kind)
            return ({'level': 'property', 'text': A.render_prop(m)}, prop_features(m) | {'api:property'})

        if judge('property', text, feats, 'p:' + A.prop_shape(p), True, shrinker):
            ctx.count('props_judged')
            if 'shape:disjunction-width>=3' in feats:
                ctx.count('disj3_judged')
            if 'shape:subsecond-bound' in feats:
                ctx.count('subsecond_judged')

    # specifications
    for n in range(ctx.share(B['specs'])):
        k = rng.randrange(1, 7)
        ps = [gen.pick(rng, props) for _ in range(k)]
        feats = set().union(*[prop_features(p) for p in ps]) | {'api:specification'}
        text = A.layout(A.spec_tokens(ps), rng, 'random')

        def shrinker(kind, ps=ps):
            m = shrink.shrink_list(ps, lambda c: roundtrip(P['specification'], P['specification'],
                                                           A.layout(A.spec_tokens(c)))[0] == kind)
            return ({'level': 'specification', 'text': A.layout(A.spec_tokens(m))},
                    set().union(*[prop_features(p) for p in m]) | {'api:specification'})

        judge('specification', text, feats, 's:' + '+'.join(A.prop_shape(p) for p in ps), True, shrinker)

    # human-written inputs: the strings of the repository's tests and documentation (shard 0)
    if ctx.shard == 0:
        from .. import corpus

        for level in ('property', 'specification', 'condition', 'expression'):
            for origin, text in corpus.accepted(level):
                if judge(level, text, {'api:' + level, 'shape:corpus'}, f'corpus:{level}:{h64(text)}', True, None):
                    ctx.count('corpus_roundtrips')

    # references: distinct reference chains must print distinctly (shard 0, exhaustive small scope)
    if ctx.shard == 0:
        roots = [A.THIS, A.var('A'), A.var('B')]
        names = ('x', 'y')
        chains = []
        for r in roots:
            level1 = [('field', r, n) for n in names]
            chains += level1
            for c in level1:
                level2 = [('field', c, n) for n in names] + [('index', c, A.num(i)) for i in ('0', '1')] + [
                    ('index', c, A.fld('i'))] + [('index', ('index', c, A.num(i)), A.num(j)) for i, j in (('0', '1'), ('1', '0'), ('2', '2'))] + [
                    ('field', ('index', ('index', ('index', c, A.num('1')), A.num('2')), A.num('3')), 'v'),
                    ('index', ('index', c, A.fld('i')), A.fld('j'))]
                chains += level2
                for c2 in level2:
                    chains += [('field', c2, n) for n in names] + [('index', c2, A.num('0'))]
        printed = {}
        for c in chains:
            o = hplapi.outcome(P['expression'].parse, A.render_expr(c, style='tight'))
            if o[0] != 'ok':
                continue
            s = str(o[1])
            ctx.evaluation('ref:' + A.shape(c), True)
            ctx.count('reference_chains_printed')
            if s in printed and printed[s] != c:
                ctx.begin_case(())
                ctx.violation('print-collision', {'a': repr(printed[s]), 'b': repr(c), 'printed': s}, ())
            printed[s] = c
            kind, detail, _, _ = roundtrip(P['expression'], P['expression'], A.render_expr(c, style='tight'))
            if kind not in (None, 'rejected'):
                ctx.begin_case(('shape:reference-chain',))
                ctx.violation(kind, {'level': 'expression', 'text': A.render_expr(c), 'detail': detail}, ('shape:reference-chain',))
