"""C08 - simplify preserves meaning."""
import itertools

from .. import absyn as A
from .. import gen, hplapi, monitors, semantic as S, shrink
from ..model import eval as E

ID = 'C08'
LEVEL = 'exploration'
TECHNIQUE = ('runtime monitoring: the real simplify() is driven on generated well-typed terms; oracle = independent '
             'reference evaluator run on input and output over a valuation grid (strict input / lenient output, '
             'all admissible readings), plus kind/type/predicate-wrapping checks and an exception licence')
RULE = ('Well-typed expressions and predicates from the typed generator (depth <= 5, every operator and built-in '
        'function, biased to the simplifier\'s triggers: literals 0/1/-1, repeated and negated subterms, literal-left '
        'comparisons, alias-vs-field operand orders, same-operator chains, duplicate set elements) and every '
        'small-scope shape with <= 3 operators over leaves {x, y, @A.v, 0, 1, 2} / {p, q, @A.b, True, False} are '
        'simplified by the real function; input and output are evaluated on a valuation grid. Non-trivial = simplify '
        'returned an object that is not the input (a rule fired); distinct = distinct input shape.')
RULE_ADDED = ' Since the seeding rounds: exhaustive sum/prod/len/max/min over constant ranges with bounds -3..3 and all exclusion flags; valuations at float discontinuities are not judged; comparisons of two terms built from one base by one operator with two different constants.'
ASSUMPTIONS = [
    'the reference evaluator (DESIGN.md 4.1) is my reading of an informally documented language; where the reading '
    'is open (sets as sets or lists under len/sum/prod, int() truncation or floor) a violation needs disagreement '
    'under every reading; aggregates over literal reversed ranges and near-tie float comparisons are not judged',
]
FLOORS = {
    'quick': {'evaluations': 8000, 'terms_judged': 7000, 'rule_fired': 2500, 'distinct_nontrivial': 1500,
              'valuations_judged': 60000, 'smallscope_terms': 3000, 'predicates_judged': 800},
    'thorough': {'evaluations': 200000, 'terms_judged': 180000, 'rule_fired': 60000, 'distinct_nontrivial': 20000,
                 'valuations_judged': 2000000, 'smallscope_terms': 50000, 'predicates_judged': 20000},
}
BUDGET = {'quick': {'random': 16000, 'ss_fills': 2, 'envs': 24},
          'thorough': {'random': 800000, 'ss_fills': 40, 'envs': 40}}
TIMEOUT = {'quick': 900, 'thorough': 7200}


def input_features(e):
    fs = A.features(e)
    for x in A.walk(e):
        if x[0] == 'bin':
            op = x[1]
            for side in (x[2], x[3]):
                if side[0] == 'bin' and side[1] == op and op in ('**', '=', '!='):
                    fs.add('shape:nested-' + op)
            if op in ('=', '!=') and any(s[0] == 'bin' and s[1] in ('*', '/', '**') for s in (x[2], x[3])):
                fs.add('shape:eq-over-mul-div-pow')
            if op in ('=', '!=') and any(s[0] == 'un' and s[1] == '-' for s in (x[2], x[3])):
                fs.add('shape:eq-over-negation')
            if op in ('=', '!=') and any(s[0] == 'lit' and s[1] == 'str' for s in (x[2], x[3])):
                fs.add('shape:eq-with-string-literal')
        if x[0] == 'call' and x[1] in ('sum', 'prod', 'len') and x[2][0][0] == 'set' and any(
                m[0] not in ('lit', 'const') for m in x[2][0][1]):
            # duplicates among the members matter for len/sum/prod only (not for max/min/gcd)
            fs.add('shape:len-sum-prod-of-set-with-reference')
        if x[0] == 'call' and x[1] in ('max', 'min', 'gcd') and x[2][0][0] == 'set':
            fs.add('shape:max-min-gcd-of-set')
        if x[0] == 'call' and x[1] in ('sum', 'prod', 'len', 'max', 'min', 'gcd') and x[2][0][0] == 'range':
            fs.add('shape:aggregate-of-range')
    return fs


def judge(case, envs, rfun=None):
    """Returns (kind or None, detail dict, fired, judged_valuations, skipped)"""
    from hpl.rewrite import simplify

    h = case.h
    if S.power_bomb(h):
        return ('licensed-raise', {'error': 'not-called', 'why': 'astronomically large constant power'}, False, 0,
                {'power-too-large-to-fold': 1})
    snap_before = monitors.snapshot(h)
    o = hplapi.outcome(simplify, h)
    if o[0] != 'ok':
        exc = o[1]
        licensed = E.closed_subterm_undefined(_expr_of(h)) or S.divisor_zero_everywhere(_expr_of(h), envs)
        if licensed:
            return ('licensed-raise', {'error': type(exc).__name__}, False, 0, {})
        if S.undefined_everywhere(_expr_of(h), envs):
            return ('licensed-raise', {'error': type(exc).__name__, 'why': 'input undefined on every valuation'},
                    False, 0, {'input-undefined-on-every-valuation': 1})
        return ('simplify-raises', {'error': type(exc).__name__, 'message': str(exc)[:200]}, False, 0, {})
    r = o[1]
    fired = r is not h
    # kind and type
    is_pred = bool(getattr(h, 'is_predicate', False))
    if is_pred:
        if not getattr(r, 'is_predicate', False):
            return ('kind-changed', {'result': type(r).__name__}, fired, 0, {})
        cond_res = hplapi.outcome(simplify, h.condition)
        if cond_res[0] == 'ok':
            c = cond_res[1]
            lit = c.value if type(c).__name__ == 'HplLiteral' and isinstance(c.value, bool) else None
            want = {True: 'HplVacuousTruth', False: 'HplContradiction', None: 'HplPredicateExpression'}[lit]
            if type(r).__name__ != want:
                return ('predicate-wrapping', {'result': type(r).__name__, 'condition_simplifies_to': str(c)[:80]},
                        fired, 0, {})
        hin, hout = h.condition, r.condition
    else:
        if not getattr(r, 'is_expression', False):
            return ('kind-changed', {'result': type(r).__name__}, fired, 0, {})
        if not (r.data_type & h.data_type):
            return ('type-changed', {'input_type': str(h.data_type), 'output_type': str(r.data_type)}, fired, 0, {})
        hin, hout = h, r
    rep = []
    _invariant().check_any(r, rep, '$')
    if rep:
        where, clause, parent, det = rep[0]
        return ('invalid-output', {'where': where, 'clause': clause, 'node': str(parent), 'detail': str(det)[:160],
                                   'output_text': str(r)[:300]}, fired, 0, {})
    readings = S.readings_for(hin, hout)
    cmp = S.compare_values(S.compile_all(hin, True, readings), S.compile_all(hout, False, readings), envs)
    if cmp.witness is not None:
        d = dict(cmp.witness)
        d['output_text'] = str(r)[:300]
        return ('meaning-changed', d, fired, cmp.judged, cmp.skipped)
    return (None, {'output_text': str(r)[:200]}, fired, cmp.judged, cmp.skipped)


_INV = []


def _invariant():
    if not _INV:
        from hpl.types import DataType

        from ..model import typeset, typing as TY
        _INV.append(TY.Invariant(typeset.Bridge(DataType)))
    return _INV[0]


def _expr_of(h):
    return h.condition if getattr(h, 'is_predicate', False) else h


def run(ctx):
    rng = ctx.rng
    B = BUDGET[ctx.tier]

    def handle(case, envs, sig, origin):
        feats = input_features(case.e) | {'api:simplify', 'shape:' + origin}
        ctx.begin_case(feats)
        o = case.parse()
        if o[0] != 'ok':
            ctx.skip('rejected:' + type(o[1]).__name__)
            return
        kind, detail, fired, judged, skipped = judge(case, envs)
        for k, v in skipped.items():
            ctx.skip(k, v)
        ctx.evaluation(sig, fired)
        ctx.count('terms_judged')
        ctx.count('valuations_judged', judged)
        if fired:
            ctx.count('rule_fired')
        if case.level == 'predicate':
            ctx.count('predicates_judged')
        if kind == 'licensed-raise':
            ctx.count('licensed_raises')
            return
        if ctx.evaluations % 400 == 1:
            ctx.sample({'input': case.text[:200], 'output': detail.get('output_text'), 'rule_fired': fired,
                        'valuations_judged': judged, 'verdict': kind or 'same value on every judged valuation'})
        if kind is None:
            return
        w = {'input': case.text, 'level': case.level}
        w.update(detail)

        def shrinker():
            def fails(c):
                cc = S.Case(c, case.this, case.aliases, case.level)
                if cc.parse()[0] != 'ok':
                    return False
                return judge(cc, envs)[0] == kind
            m = shrink.shrink_expr(case.e, fails)
            cc = S.Case(m, case.this, case.aliases, case.level)
            cc.parse()
            k2, d2, _, _, _ = judge(cc, envs)
            w2 = {'input': cc.text, 'level': case.level}
            w2.update(d2)
            f2 = input_features(m) | {'api:simplify'}
            if 'error' in d2:
                f2.add('exc:' + d2['error'])
            return (w2, f2)

        if 'error' in detail:
            feats = feats | {'exc:' + detail['error']}
        ctx.violation(kind, w, feats, shrinker)

    # 1. small scope: every shape with <= 3 operators, random leaf fillings, complete grids
    idx = 0
    for k in range(0, 4):
        for t, shapes in ((gen.BOOL, S.bool_shapes(k)), (gen.NUM, S.num_shapes(k) if k else [])):
            for shp in shapes:
                idx += 1
                if not ctx.mine(idx):
                    continue
                for _ in range(B['ss_fills']):
                    e = S.fill(shp, rng, S.SS_NUM_LEAVES, S.SS_BOOL_LEAVES)
                    level = 'predicate' if (t == gen.BOOL and rng.random() < 0.25 and A.has_this(e)) else 'expression'
                    case = S.Case(e, S.SS_THIS, {'A': S.SS_ALIAS}, level)
                    handle(case, S.ss_envs(e), 'ss:' + A.shape(e), 'smallscope')
                    ctx.count('smallscope_terms')

    # 1b. correlated atoms: two comparisons over the same (or swapped) operands under every connective
    relops = ('=', '!=', '<', '<=', '>', '>=')
    operand_pairs = ((A.fld('x'), A.fld('y')), (A.fld('x'), A.num('1')), (('field', A.var('A'), 'v'), A.fld('x')),
                     (('bin', '+', A.fld('x'), A.num('1')), A.fld('y')))
    idx = 0
    for op1 in relops:
        for op2 in relops:
            for conn in ('and', 'or', 'implies', 'iff', '=', '!='):
                for swapped in (False, True):
                    for neg in (False, True):
                        idx += 1
                        if not ctx.mine(idx):
                            continue
                        a, b = operand_pairs[idx % len(operand_pairs)] if ctx.tier == 'quick' else gen.pick(rng, operand_pairs)
                        c1 = ('bin', op1, a, b)
                        c2 = ('bin', op2, b, a) if swapped else ('bin', op2, a, b)
                        e = ('bin', conn, c1, c2)
                        if neg:
                            e = A.not_(e)
                        if idx % 5 == 0:
                            e = ('bin', gen.pick(rng, ('or', 'and')), e, ('bin', gen.pick(rng, ('or', 'and')), A.fld('p'), c2))
                        case = S.Case(e, S.SS_THIS, {'A': S.SS_ALIAS}, 'predicate' if idx % 3 == 0 else 'expression')
                        handle(case, S.ss_envs(e), 'corr:' + A.shape(e) + f'|{op1}{op2}{conn}{swapped}', 'correlated')
                        ctx.count('correlated_terms')

    # 1c. a term compared with a simple function of itself (the simplifier's "obviously different" rules)
    X, V = A.fld('x'), ('field', A.var('A'), 'v')
    idx = 0
    for base in (X, V, ('bin', '+', X, A.fld('y'))):
        for k in ('0', '1', '2', '0.5'):
            K = A.num(k)
            variants = [('bin', '*', base, K), ('bin', '/', base, K), ('bin', '**', base, K), ('bin', '+', base, K),
                        ('bin', '-', base, K), ('bin', '*', K, base), ('bin', '-', K, base), ('bin', '+', K, base),
                        ('bin', '**', K, base), A.neg(base), A.neg(A.neg(base)), ('call', 'abs', (base,)),
                        ('bin', '*', base, A.neg(K)), ('bin', '-', base, base), ('bin', '/', base, base)]
            for f in variants:
                for op in relops:
                    for flip in (False, True):
                        idx += 1
                        if not ctx.mine(idx):
                            continue
                        e = ('bin', op, base, f) if flip else ('bin', op, f, base)
                        if idx % 4 == 0:
                            e = ('bin', gen.pick(rng, ('and', 'or', 'iff', 'implies')), e, A.not_(e) if idx % 8 == 0 else A.fld('p'))
                        case = S.Case(e, S.SS_THIS, {'A': S.SS_ALIAS}, 'predicate' if idx % 5 == 0 else 'expression')
                        handle(case, S.ss_envs(e), 'self:' + A.shape(e) + f'|{k}{op}{flip}', 'self-comparison')
                        ctx.count('self_comparison_terms')

    # 1c'. two terms built from the same base by the same operator with two different constants (equal for some values
    # of the base - 0, 1, -1 - although the constants differ), either operand order
    for base in (X, V):
        for aop in ('+', '-', '*', '/', '**'):
            for k1 in ('0', '1', '2', '3', '0.5'):
                for k2 in ('1', '2', '3', '-1'):
                    if k1 == k2:
                        continue
                    K1 = A.num(k1)
                    K2 = A.neg(A.num('1')) if k2 == '-1' else A.num(k2)
                    for op in relops:
                        idx += 1
                        if not ctx.mine(idx):
                            continue
                        mirrored = idx % 3 == 0 and aop in ('+', '*')
                        l = ('bin', aop, K1, base) if mirrored else ('bin', aop, base, K1)
                        r = ('bin', aop, K2, base) if mirrored else ('bin', aop, base, K2)
                        e = ('bin', op, l, r)
                        if idx % 4 == 0:
                            e = ('bin', gen.pick(rng, ('and', 'or')), ('bin', '>', base, A.num('5')), e)
                        case = S.Case(e, S.SS_THIS, {'A': S.SS_ALIAS}, 'predicate' if idx % 5 == 0 else 'expression')
                        handle(case, S.ss_envs(e), f'self2:{aop}|{k1}|{k2}|{op}|{mirrored}', 'self-comparison')
                        ctx.count('two_constant_self_comparisons')

    # 1d. aggregates over constant ranges: every pair of small bounds of either sign x exclusion flags x function
    idx = 0
    for fn in ('sum', 'prod', 'len', 'max', 'min'):
        for lo in range(-3, 4):
            for hi in range(-3, 4):
                for exlo in (False, True):
                    for exhi in (False, True):
                        idx += 1
                        if not ctx.mine(idx):
                            continue
                        nlo = A.neg(A.num(str(-lo))) if lo < 0 else A.num(str(lo))
                        nhi = A.neg(A.num(str(-hi))) if hi < 0 else A.num(str(hi))
                        call = ('call', fn, (('range', nlo, nhi, exlo, exhi),))
                        e = gen.pick(rng, (call, ('bin', '=', A.fld('x'), call), ('bin', '<', call, A.fld('y')),
                                           ('bin', '+', call, A.fld('x'))))
                        case = S.Case(e, S.SS_THIS, {'A': S.SS_ALIAS}, 'expression')
                        handle(case, S.ss_envs(e), f'rangeagg:{fn}|{lo}|{hi}|{exlo}{exhi}|{e[0]}{e[1] if e[0] == "bin" else ""}', 'range-aggregate')
                        ctx.count('range_aggregate_terms')

    # 1e. membership of a literal / field / bare variable in sets of up to three such members (a bare variable may
    # take any value: only literal members decide a membership statically)
    pool = (A.num('0'), A.num('1'), A.num('2'), A.fld('x'), A.var('V'), ('field', A.var('A'), 'v'))
    venvs = [E.Env({'x': x, 'y': 0, 'p': False, 'q': False, 's': 'a', 'xs': [0, 1], 'bs': [True]},
                   {'A': {'v': av, 'b': False, 'ys': [1]}, 'V': vv}) for x in (0, 1, 2) for vv in (0, 1, 2) for av in (0, 1)]
    idx = 0
    for left in (A.num('0'), A.num('1'), A.fld('x'), A.var('V')):
        for k in (1, 2, 3):
            for members in itertools.product(pool, repeat=k):
                idx += 1
                if not ctx.mine(idx):
                    continue
                e = ('bin', 'in', left, ('set', tuple(members)))
                if idx % 3 == 0:
                    e = gen.pick(rng, (A.not_(e), ('bin', 'or', e, A.fld('p')), ('bin', 'and', A.fld('p'), e)))
                case = S.Case(e, S.SS_THIS, {'A': S.SS_ALIAS}, 'expression')
                handle(case, venvs, f'member:{A.shape(e)}|{k}', 'membership')
                ctx.count('membership_terms')

    # 2. random typed terms, simplifier-biased
    for n in range(ctx.share(B['random'])):
        t = gen.pick(rng, (gen.BOOL, gen.BOOL, gen.BOOL, gen.NUM, gen.NUM, gen.STR))
        case = S.random_case(rng, t, maxdepth=rng.randrange(1, 6), bias='simplify' if n % 3 else 'plain')
        if not A.renderable(case.e):
            ctx.skip('not-renderable')
            continue
        if t == gen.BOOL and rng.random() < 0.3 and A.has_this(case.e):
            case.level = 'predicate'
        envs = S.envs_for(rng, case, B['envs'])
        handle(case, envs, 'r:' + A.shape(case.e), 'random')
