"""Thin access layer to the real hpl API: long-lived parser objects, construction of hpl ASTs from
abstract trees through the public constructors, schema model -> hpl type tokens."""
import math

from . import absyn as A
from .compare import CONST_VALUES, num_value

_parsers = {}


def parser(kind):
    """kind in specification|property|predicate|condition|expression"""
    p = _parsers.get(kind)
    if p is None:
        from hpl import parser as hp

        p = getattr(hp, kind + '_parser')()
        _parsers[kind] = p
    return p


def fresh_parser(kind):
    from hpl import parser as hp

    return getattr(hp, kind + '_parser')()


DOCUMENTED = None


def documented_errors():
    global DOCUMENTED
    if DOCUMENTED is None:
        from hpl.errors import HplSanityError, HplSyntaxError

        DOCUMENTED = (HplSyntaxError, HplSanityError, TypeError, ValueError)
    return DOCUMENTED


def outcome(fn, *args):
    """('ok', result) or ('raise', exception)"""
    try:
        return ('ok', fn(*args))
    except RecursionError as e:
        return ('raise', e)
    except Exception as e:
        return ('raise', e)


def exc_class(o):
    return 'ok' if o[0] == 'ok' else type(o[1]).__name__


# ------------------------------------------------------------------------------------------
# abstract -> hpl through the public constructors
# ------------------------------------------------------------------------------------------
def build_expr(e):
    from hpl.ast import (HplArrayAccess, HplBinaryOperator, HplFieldAccess, HplFunctionCall, HplLiteral,
                         HplQuantifier, HplRange, HplSet, HplThisMessage, HplUnaryOperator, HplVarReference)

    t = e[0]
    if t == 'lit':
        if e[1] == 'bool':
            return HplLiteral(e[2], e[2] == 'True')
        if e[1] == 'num':
            return HplLiteral(e[2], num_value(e[2]))
        return HplLiteral(e[2], e[2])
    if t == 'const':
        return HplLiteral(e[1], CONST_VALUES[e[1]])
    if t == 'this':
        return HplThisMessage()
    if t == 'var':
        return HplVarReference('@' + e[1])
    if t == 'field':
        return HplFieldAccess(build_expr(e[1]), e[2])
    if t == 'index':
        return HplArrayAccess(build_expr(e[1]), build_expr(e[2]))
    if t == 'set':
        return HplSet(tuple(build_expr(k) for k in e[1]))
    if t == 'range':
        return HplRange(build_expr(e[1]), build_expr(e[2]), exclude_min=bool(e[3]), exclude_max=bool(e[4]))
    if t == 'un':
        return HplUnaryOperator(e[1], build_expr(e[2]))
    if t == 'bin':
        return HplBinaryOperator(e[1], build_expr(e[2]), build_expr(e[3]))
    if t == 'quant':
        return HplQuantifier(e[1], e[2], build_expr(e[3]), build_expr(e[4]))
    if t == 'call':
        return HplFunctionCall(e[1], tuple(build_expr(k) for k in e[2]))
    raise ValueError(e)


def build_predicate(pred):
    from hpl.ast import HplVacuousTruth, predicate_from_expression

    if pred is None:
        return HplVacuousTruth()
    return predicate_from_expression(build_expr(pred))


def build_event(ev):
    from hpl.ast import HplEventDisjunction, HplSimpleEvent

    if ev[0] == 'disj':
        alts = [build_event(k) for k in ev[1]]
        return nest_disjunction(alts, NESTING[0])
    _, topic, alias, pred = ev
    return HplSimpleEvent.publish(topic, predicate=build_predicate(pred), alias=alias)


NESTING = ['right']  # how build_event nests disjunctions: right | left | balanced | derived | a random.Random


def nest_disjunction(alts, how):
    """binary tree of HplEventDisjunction over alts, leaves in the given order"""
    from hpl.ast import HplEventDisjunction

    if len(alts) == 1:
        return alts[0]
    if how == 'right':
        return HplEventDisjunction(alts[0], nest_disjunction(alts[1:], how))
    if how == 'left':
        return HplEventDisjunction(nest_disjunction(alts[:-1], how), alts[-1])
    if how == 'derived':
        # right-nested, but every node is a modified copy (but()) of a disjunction that held a decoy alternative
        from hpl.ast import HplSimpleEvent
        rest = nest_disjunction(alts[1:], how)
        decoy = HplSimpleEvent.publish('zz_decoy_%d' % len(alts))
        if len(alts) % 2:
            return HplEventDisjunction(decoy, rest).but(event1=alts[0])
        return HplEventDisjunction(alts[0], decoy).but(event2=rest)
    if how == 'balanced':
        m = len(alts) // 2
        return HplEventDisjunction(nest_disjunction(alts[:m], how), nest_disjunction(alts[m:], how))
    m = how.randrange(1, len(alts))  # random split point
    return HplEventDisjunction(nest_disjunction(alts[:m], how), nest_disjunction(alts[m:], how))


def build_scope(scope):
    from hpl.ast import HplScope

    kind, act, term = scope[1], scope[2], scope[3]
    if kind == 'globally':
        return HplScope.globally()
    if kind == 'after':
        return HplScope.after(build_event(act))
    if kind == 'until':
        return HplScope.until(build_event(term))
    return HplScope.after_until(build_event(act), build_event(term))


def build_pattern(pat):
    from hpl.ast import HplPattern

    _, pk, first, second, tb = pat
    mt = math.inf
    if tb is not None:
        mt = float(tb[0]) / 1000.0 if tb[1] == 'ms' else float(tb[0])
    kw = {'max_time': mt}
    if MIN_TIME[0] is not None:
        kw['min_time'] = min(MIN_TIME[0], mt)  # a lower bound has no concrete syntax: constructors only
    if pk == 'some':
        return HplPattern.existence(build_event(first), **kw)
    if pk == 'no':
        return HplPattern.absence(build_event(first), **kw)
    if pk == 'causes':
        return HplPattern.response(build_event(first), build_event(second), **kw)
    if pk == 'forbids':
        return HplPattern.prevention(build_event(first), build_event(second), **kw)
    return HplPattern.requirement(build_event(first), build_event(second), **kw)


MIN_TIME = [None]  # lower time bound given to patterns built through the API (None: the default)


def build_property(p):
    from hpl.ast import HplProperty

    _, meta, scope, pat = p
    h = HplProperty(build_scope(scope), build_pattern(pat))
    for k, v in meta:
        h.metadata[k] = v
    return h


# ------------------------------------------------------------------------------------------
# schema model -> hpl.types tokens
# ------------------------------------------------------------------------------------------
def type_token(t, name='T', rng=None):
    from hpl import types as ht

    k = t[0]
    if k == 'bool':
        return ht.BOOLEANS
    if k == 'num':
        pool = (ht.UINT8, ht.INT32, ht.FLOAT64, ht.INT64, ht.UINT16, ht.FLOAT32)
        return pool[rng.randrange(len(pool))] if rng is not None else ht.FLOAT64
    if k == 'str':
        return ht.STRINGS
    if k == 'arr':
        return ht.ArrayType(name + '[]', subtype=type_token(t[1], name + '_e', rng), length=t[2])
    if k == 'msg':
        fields = {fn: type_token(ft, f'{name}_{fn}', rng) for fn, ft in t[1].items()}
        consts = {cn: (type_token(ct, f'{name}_{cn}', rng), v) for cn, (ct, v) in t[2].items()}
        return ht.MessageType(name, fields=fields, constants=consts)
    raise ValueError(t)
