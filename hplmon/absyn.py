"""Own abstract syntax for HPL (plain tuples), renderer to token sequences and text, helpers.

Expression nodes
    ('lit', kind, text)              kind in bool|num|str ; text is the source text
    ('const', name)                  PI INF NAN E
    ('this',)                        the current message (implicit; never rendered by itself)
    ('var', name)                    @name
    ('field', base, name)            base.name   (base ('this',) renders as just name)
    ('index', base, idx)             base[idx]
    ('set', elems)                   { e, ... }
    ('range', lo, hi, exlo, exhi)    [ / ![ lo to hi ] / ]!
    ('un', op, a)                    op in 'not' '-'
    ('bin', op, a, b)
    ('quant', q, var, dom, body)     q in forall|exists
    ('call', fname, args)
Events / properties
    ('ev', topic, alias|None, pred|None)
    ('disj', events)                 len >= 2, simple events only
    ('scope', kind, act|None, term|None)     kind in globally|after|until|after_until
    ('pat', kind, first, second|None, tb)    textual order; kind in some|no|causes|forbids|requires
                                             tb = None | (numtext, unit)
    ('prop', meta, scope, pat)       meta = tuple of (key, valuetext)

Precedence (Appendix A.1 of DESIGN.md), lowest to highest:
    1 implies/iff (L)  2 or (L)  3 and (L)  4 not/quantifier (prefix)  5 relational (N)
    6 + - (L)  7 * / (L)  8 ** (L)  9 unary minus (prefix)  10 atoms
"""
import re

BIN_LEVEL = {
    'implies': 1, 'iff': 1, 'or': 2, 'and': 3,
    '=': 5, '!=': 5, '<': 5, '<=': 5, '>': 5, '>=': 5, 'in': 5,
    '+': 6, '-': 6, '*': 7, '/': 7, '**': 8,
}
BOOL_BIN = ('implies', 'iff', 'or', 'and')
REL_BIN = ('=', '!=', '<', '<=', '>', '>=', 'in')
ARITH_BIN = ('+', '-', '*', '/', '**')
KEYWORDS = frozenset(
    'not implies iff or and forall exists in to as within no some requires causes forbids after until '
    'globally True False PI INF NAN E'.split()
)
UNITS = frozenset(('s', 'ms'))
CONSTS = ('PI', 'INF', 'NAN', 'E')

EXPR_TAGS = frozenset(('lit', 'const', 'this', 'var', 'field', 'index', 'set', 'range', 'un', 'bin', 'quant', 'call'))


def level(e):
    t = e[0]
    if t == 'bin':
        return BIN_LEVEL[e[1]]
    if t == 'un':
        return 4 if e[1] == 'not' else 9
    if t == 'quant':
        return 4
    return 10


# ------------------------------------------------------------------------------------------
# constructors (convenience)
# ------------------------------------------------------------------------------------------
THIS = ('this',)


def num(text):
    return ('lit', 'num', str(text))


def boolean(b):
    return ('lit', 'bool', 'True' if b else 'False')


def string(content):
    return ('lit', 'str', '"' + content + '"')


def fld(name, base=THIS):
    return ('field', base, name)


def var(name):
    return ('var', name)


def bin_(op, a, b):
    return ('bin', op, a, b)


def neg(a):
    return ('un', '-', a)


def not_(a):
    return ('un', 'not', a)


# ------------------------------------------------------------------------------------------
# traversal
# ------------------------------------------------------------------------------------------
def children(e):
    t = e[0]
    if t in ('lit', 'const', 'this', 'var'):
        return ()
    if t == 'field':
        return (e[1],)
    if t == 'index':
        return (e[1], e[2])
    if t == 'set':
        return tuple(e[1])
    if t == 'range':
        return (e[1], e[2])
    if t == 'un':
        return (e[2],)
    if t == 'bin':
        return (e[2], e[3])
    if t == 'quant':
        return (e[3], e[4])
    if t == 'call':
        return tuple(e[2])
    raise ValueError(e)


def rebuild(e, kids):
    t = e[0]
    kids = tuple(kids)
    if t in ('lit', 'const', 'this', 'var'):
        return e
    if t == 'field':
        return ('field', kids[0], e[2])
    if t == 'index':
        return ('index', kids[0], kids[1])
    if t == 'set':
        return ('set', kids)
    if t == 'range':
        return ('range', kids[0], kids[1], e[3], e[4])
    if t == 'un':
        return ('un', e[1], kids[0])
    if t == 'bin':
        return ('bin', e[1], kids[0], kids[1])
    if t == 'quant':
        return ('quant', e[1], e[2], kids[0], kids[1])
    if t == 'call':
        return ('call', e[1], kids)
    raise ValueError(e)


def walk(e):
    stack = [e]
    while stack:
        x = stack.pop()
        yield x
        stack.extend(reversed(children(x)))


def size(e):
    return sum(1 for _ in walk(e))


def depth(e):
    ks = children(e)
    return 1 + (max(depth(k) for k in ks) if ks else 0)


def subst(e, f):
    """Bottom-up map: f applied to every node after its children were rebuilt."""
    ks = children(e)
    if ks:
        e = rebuild(e, [subst(k, f) for k in ks])
    return f(e)


def free_vars(e, bound=frozenset()):
    """Names of @variables occurring free in expression e."""
    t = e[0]
    if t == 'var':
        return set() if e[1] in bound else {e[1]}
    if t == 'quant':
        return free_vars(e[3], bound) | free_vars(e[4], bound | {e[2]})
    out = set()
    for k in children(e):
        out |= free_vars(k, bound)
    return out


def all_vars(e):
    return {x[1] for x in walk(e) if x[0] == 'var'}


def has_this(e):
    return any(x[0] == 'this' for x in walk(e))


def replace_var(e, name, repl, bound=frozenset()):
    """Capture-respecting replacement of free @name by repl."""
    t = e[0]
    if t == 'var':
        return repl if (e[1] == name and name not in bound) else e
    if t == 'quant':
        return ('quant', e[1], e[2], replace_var(e[3], name, repl, bound),
                replace_var(e[4], name, repl, bound | {e[2]}))
    ks = children(e)
    if not ks:
        return e
    return rebuild(e, [replace_var(k, name, repl, bound) for k in ks])


def replace_this(e, repl):
    if e[0] == 'this':
        return repl
    ks = children(e)
    if not ks:
        return e
    return rebuild(e, [replace_this(k, repl) for k in ks])


def features(e):
    """Syntactic feature tags of an expression (for known-finding matching and strata)."""
    fs = set()
    for x in walk(e):
        t = x[0]
        if t == 'bin':
            fs.add('op:' + x[1])
        elif t == 'un':
            fs.add('op:u' + x[1])
        elif t == 'call':
            fs.add('node:call')
            fs.add('fn:' + x[1])
        elif t == 'const':
            fs.add('lit:' + x[1])
        elif t == 'lit':
            fs.add('lit:' + x[1])
        elif t in ('set', 'range', 'quant', 'index', 'var'):
            fs.add('node:' + t)
            if t == 'quant':
                fs.add('node:' + x[1])
    return fs


def shape(e):
    """Shape signature: identifiers and literal values erased to their kind."""
    t = e[0]
    if t == 'lit':
        return 'L' + e[1][0]
    if t == 'const':
        return 'C'
    if t == 'this':
        return ''
    if t == 'var':
        return '@'
    if t == 'field':
        return shape(e[1]) + '.f'
    if t == 'index':
        return shape(e[1]) + '[' + shape(e[2]) + ']'
    if t == 'set':
        return '{' + ','.join(shape(k) for k in e[1]) + '}'
    if t == 'range':
        return ('![' if e[3] else '[') + shape(e[1]) + ':' + shape(e[2]) + (']!' if e[4] else ']')
    if t == 'un':
        return '(' + e[1] + ' ' + shape(e[2]) + ')'
    if t == 'bin':
        return '(' + shape(e[2]) + ' ' + e[1] + ' ' + shape(e[3]) + ')'
    if t == 'quant':
        return '(' + e[1][0].upper() + ' ' + shape(e[3]) + ':' + shape(e[4]) + ')'
    if t == 'call':
        return e[1] + '(' + ','.join(shape(k) for k in e[2]) + ')'
    raise ValueError(e)


# ------------------------------------------------------------------------------------------
# rendering to tokens
# ------------------------------------------------------------------------------------------
class Paren:
    """Parenthesisation policy: 'min' (only where the grammar needs them), 'full' (around every
    composite sub-expression where parentheses are admissible) or a random.Random (redundant
    parentheses with probability p)."""

    def __init__(self, mode='min', rng=None, p=0.25):
        self.mode = mode
        self.rng = rng
        self.p = p

    def extra(self, e):
        if self.mode == 'min':
            return False
        if self.mode == 'full':
            return level(e) < 10
        return self.rng.random() < self.p


MIN = Paren('min')
FULL = Paren('full')


def expr_tokens(e, pol=MIN, min_level=1, out=None, allow_paren=True):
    """Append the tokens of e to out; parenthesise if e's level is below min_level."""
    if out is None:
        out = []
    lv = level(e)
    need = lv < min_level
    if need and not allow_paren:
        raise ValueError(f'cannot render {e!r} without parentheses here')
    wrap = need or (allow_paren and pol.extra(e))
    if wrap:
        out.append('(')
        _expr_tokens(e, pol, out)
        out.append(')')
    else:
        _expr_tokens(e, pol, out)
    return out


def _expr_tokens(e, pol, out):
    t = e[0]
    if t == 'lit':
        out.append(e[2])
    elif t == 'const':
        out.append(e[1])
    elif t == 'var':
        out.append('@' + e[1])
    elif t == 'this':
        raise ValueError('bare this-message cannot be rendered')
    elif t == 'field':
        if e[1] == THIS:
            out.append(e[2])
        else:
            expr_tokens(e[1], pol, 10, out, allow_paren=False)
            out.append('.')
            out.append(e[2])
    elif t == 'index':
        expr_tokens(e[1], pol, 10, out, allow_paren=False)
        out.append('[')
        expr_tokens(e[2], pol, 6, out)
        out.append(']')
    elif t == 'set':
        out.append('{')
        for i, k in enumerate(e[1]):
            if i:
                out.append(',')
            expr_tokens(k, pol, 6, out)
        out.append('}')
    elif t == 'range':
        out.append('![' if e[3] else '[')
        expr_tokens(e[1], pol, 6, out)
        out.append('to')
        expr_tokens(e[2], pol, 6, out)
        out.append(']!' if e[4] else ']')
    elif t == 'un':
        if e[1] == 'not':
            out.append('not')
            expr_tokens(e[2], pol, 4, out)
        else:
            out.append('-')
            expr_tokens(e[2], pol, 9, out)
    elif t == 'bin':
        lv = BIN_LEVEL[e[1]]
        if lv == 5:
            expr_tokens(e[2], pol, 6, out)
            out.append(e[1])
            expr_tokens(e[3], pol, 6, out)
        else:
            expr_tokens(e[2], pol, lv, out)
            out.append(e[1])
            expr_tokens(e[3], pol, lv + 1, out)
    elif t == 'quant':
        out.append(e[1])
        out.append(e[2])
        out.append('in')
        expr_tokens(e[3], pol, 10, out, allow_paren=False)
        out.append(':')
        expr_tokens(e[4], pol, 4, out)
    elif t == 'call':
        out.append(e[1])
        out.append('(')
        if len(e[2]) != 1:
            raise ValueError('the concrete grammar has unary calls only')
        expr_tokens(e[2][0], pol, 6, out)
        out.append(')')
    else:
        raise ValueError(e)


def renderable(e):
    """True iff the concrete grammar can express e (atomic quantifier domains and accessor bases,
    unary calls, no bare this)."""
    for x in walk(e):
        t = x[0]
        if t == 'call' and len(x[2]) != 1:
            return False
        if t == 'quant' and level(x[3]) < 10:
            return False
        if t in ('field', 'index'):
            b = x[1]
            if b[0] not in ('this', 'var', 'field', 'index'):
                return False
        if t == 'index' and x[1][0] == 'this':
            return False
    return e[0] != 'this'


def event_tokens(ev, pol=MIN, out=None):
    if out is None:
        out = []
    if ev[0] == 'disj':
        out.append('(')
        for i, k in enumerate(ev[1]):
            if i:
                out.append('or')
            event_tokens(k, pol, out)
        out.append(')')
        return out
    _, topic, alias, pred = ev
    out.append(topic)
    if alias is not None:
        out.append('as')
        out.append(alias)
    if pred is not None:
        out.append('{')
        expr_tokens(pred, pol, 1, out)
        out.append('}')
    return out


def prop_tokens(p, pol=MIN, out=None):
    if out is None:
        out = []
    _, meta, scope, pat = p
    for key, val in meta:
        out.extend(['#', key, ':', val])
    kind, act, term = scope[1], scope[2], scope[3]
    if kind == 'globally':
        out.append('globally')
    if kind in ('after', 'after_until'):
        out.append('after')
        event_tokens(act, pol, out)
    if kind in ('until', 'after_until'):
        out.append('until')
        event_tokens(term, pol, out)
    out.append(':')
    _, pk, first, second, tb = pat
    if pk in ('some', 'no'):
        out.append(pk)
        event_tokens(first, pol, out)
    else:
        event_tokens(first, pol, out)
        out.append(pk)
        event_tokens(second, pol, out)
    if tb is not None:
        out.extend(['within', tb[0], tb[1]])
    return out


def spec_tokens(props, pol=MIN):
    out = []
    for p in props:
        prop_tokens(p, pol, out)
    return out


# ------------------------------------------------------------------------------------------
# layout
# ------------------------------------------------------------------------------------------
_PUNCT = frozenset(('(', ')', '{', '}', '[', ']', '![', ']!', ',', ':', '.'))


def can_glue(a, b):
    """May tokens a and b be written without whitespace between them, without changing the
    token sequence under longest-match lexing?  Conservative: at least one of the two must be
    a bracket/punctuation token, and the known munch hazards are excluded."""
    if not a or not b:
        return False
    if a not in _PUNCT and b not in _PUNCT:
        return False
    la, fb = a[-1], b[0]
    if (a == '.' and fb.isdigit()) or (b == '.' and la.isdigit()):
        return False  # 1 . x  /  x . 5 would become numbers
    if a == '.' and b == '.':
        return False
    if a == ']' and fb in '!':
        return False  # ]  != would lex as ]! =
    if a == ']!' and fb == '=':
        return False
    if la == '!' or (fb == '!' and la in '<>=!*+-/'):
        return False
    return True


def layout(tokens, rng=None, style='space'):
    """Join tokens into text.  style 'space': single spaces (dots and '@' glued); 'tight': glue
    wherever safe; 'random': whitespace drawn from {' ', '  ', newline, tab, ''} and, rarely, form feed / CR / CRLF."""
    parts = []
    for i, tok in enumerate(tokens):
        if i:
            prev = tokens[i - 1]
            if style == 'space':
                ws = ' '
            elif style == 'tight':
                ws = '' if can_glue(prev, tok) else ' '
            else:
                ws = rng.choice((' ', ' ', '  ', '\n', '\t', '', ''))
                if ws == '' and not can_glue(prev, tok):
                    ws = ' '
                elif ws == '  ' and rng.random() < 0.15:
                    ws = rng.choice(('\f', '\r\n', '\r', ' \f\n'))  # the rarer members of the blank class [ \t\f\r\n]
            # never separate a comment-like hash? '#' is an ordinary token: fine
            parts.append(ws)
        parts.append(tok)
    return ''.join(parts)


def render_expr(e, pol=MIN, rng=None, style='space'):
    return layout(expr_tokens(e, pol), rng, style)


def render_prop(p, pol=MIN, rng=None, style='space'):
    return layout(prop_tokens(p, pol), rng, style)


def render_event(ev, pol=MIN, rng=None, style='space'):
    return layout(event_tokens(ev, pol), rng, style)


# ------------------------------------------------------------------------------------------
# property helpers
# ------------------------------------------------------------------------------------------
def simple_events(ev):
    if ev is None:
        return ()
    if ev[0] == 'disj':
        return tuple(ev[1])
    return (ev,)


def prop_positions(p):
    """dict position -> event for activator / terminator / trigger / behaviour (roles per A.1)."""
    _, meta, scope, pat = p
    out = {}
    if scope[2] is not None:
        out['activator'] = scope[2]
    if scope[3] is not None:
        out['terminator'] = scope[3]
    pk, first, second = pat[1], pat[2], pat[3]
    if pk in ('some', 'no'):
        out['behaviour'] = first
    elif pk in ('causes', 'forbids'):
        out['trigger'] = first
        out['behaviour'] = second
    else:  # b requires a
        out['behaviour'] = first
        out['trigger'] = second
    return out


def partial_alias_dependency(p):
    """Does some event reference an alias that is bound by only some alternatives of an earlier
    disjunction in a position that canonical_form splits (activator; behaviour of no/requires/
    forbids; trigger of causes)?  Then no valid per-alternative decomposition exists."""
    pos = prop_positions(p)
    pk = p[3][1]
    split = ['activator']
    if pk in ('no', 'requires', 'forbids'):
        split.append('behaviour')
    elif pk == 'causes':
        split.append('trigger')
    for sp in split:
        ev = pos.get(sp)
        if ev is None or ev[0] != 'disj':
            continue
        alts = ev[1]
        names = {a[2] for a in alts if a[2] is not None}
        partial = {n for n in names if not all(a[2] == n for a in alts)}
        if not partial:
            continue
        for other, oev in pos.items():
            if other == sp:
                continue
            for se in simple_events(oev):
                if se[3] is not None and (free_vars(se[3]) - ({se[2]} if se[2] else set())) & partial:
                    return True
    return False


def prop_shape(p):
    _, meta, scope, pat = p
    pos = prop_positions(p)
    w = {k: len(simple_events(v)) for k, v in pos.items()}
    return f'{scope[1]}/{pat[1]}/' + ','.join(f'{k[0]}{w[k]}' for k in sorted(w)) + ('/tb' if pat[4] else '') + f'/m{len(meta)}'


def selftest():
    e = bin_('-', bin_('-', fld('a'), fld('b')), fld('c'))
    assert render_expr(e) == 'a - b - c'
    e = bin_('-', fld('a'), bin_('-', fld('b'), fld('c')))
    assert render_expr(e) == 'a - ( b - c )'
    e = bin_('**', neg(fld('a')), fld('b'))
    assert render_expr(e) == '- a ** b'
    e = neg(bin_('**', fld('a'), fld('b')))
    assert render_expr(e) == '- ( a ** b )'
    e = not_(bin_('=', fld('a'), fld('b')))
    assert render_expr(e) == 'not a = b'
    e = bin_('=', not_(fld('a')), fld('b'))
    assert render_expr(e) == '( not a ) = b'
    e = bin_('and', not_(fld('a')), fld('b'))
    assert render_expr(e) == 'not a and b'
    e = bin_('iff', bin_('implies', fld('a'), fld('b')), fld('c'))
    assert render_expr(e) == 'a implies b iff c'
    e = ('quant', 'forall', 'i', fld('xs'), bin_('and', var('i'), fld('q')))
    assert render_expr(e) == 'forall i in xs : ( @i and q )'
    e = ('index', ('field', var('A'), 'xs'), bin_('+', fld('i'), num(1)))
    assert render_expr(e, style='tight') == '@A.xs[i + 1]', render_expr(e, style='tight')
    assert can_glue('x', ')') and not can_glue('x', 'y') and not can_glue(']', '!=')
    p = ('prop', (('id', 'p1'),), ('scope', 'after', ('ev', '/a', 'A', None), None),
         ('pat', 'requires', ('ev', 'b', None, bin_('>', fld('x'), num(1))), ('ev', 'c', None, None), ('100', 'ms')))
    assert render_prop(p) == '# id : p1 after /a as A : b { x > 1 } requires c within 100 ms'
    assert prop_positions(p)['trigger'][1] == 'c'
    assert free_vars(('quant', 'forall', 'i', fld('xs', var('A')), bin_('=', var('i'), var('j')))) == {'A', 'j'}
