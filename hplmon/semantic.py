"""Shared machinery of the evaluator-based checks (C08, C09, C10, C13, C14): cases, valuation
grids and the input-vs-output comparison under the admissible readings."""
import itertools

from . import absyn as A
from . import gen, hplapi
from .model import eval as E


class Case:
    """A typed abstract expression with its schema context and its parsed hpl AST."""

    __slots__ = ('e', 'this', 'aliases', 'level', 'h', 'text')

    def __init__(self, e, this, aliases, level='expression'):
        self.e = e
        self.this = this
        self.aliases = aliases
        self.level = level
        self.h = None
        self.text = None

    def parse(self):
        """parse through the real parser; returns outcome"""
        toks = A.expr_tokens(self.e)
        if self.level == 'predicate':
            toks = ['{'] + toks + ['}']
        self.text = A.layout(toks)
        o = hplapi.outcome(hplapi.parser(self.level).parse, self.text)
        if o[0] == 'ok':
            self.h = o[1]
        return o


def random_case(rng, t=gen.BOOL, maxdepth=4, bias='plain', n_aliases=None, level=None, avoid=(),
                small_literals=True):
    sch = gen.random_schema(rng, depth=rng.choice((1, 1, 2)))
    if n_aliases is None:
        n_aliases = rng.choice((0, 0, 1, 1, 2))
    names = list(gen.ALIASES)
    rng.shuffle(names)
    aliases = {names[i]: gen.random_schema(rng, depth=1) for i in range(n_aliases)}
    tg = gen.Typed(rng, this=sch, aliases=aliases, maxdepth=maxdepth, bias=bias, avoid=avoid,
                   small_literals=small_literals)
    e = tg.prim(t, maxdepth)
    if level is None:
        level = 'expression'
    return Case(e, sch, aliases, level)


def envs_for(rng, case, n):
    out = []
    for v in gen.valuations(rng, case.this, case.aliases, n):
        out.append(E.Env(v['this'], v['aliases']))
    return out


def needs_readings(h):
    for x in E._walk(h):
        if type(x).__name__ == 'HplFunctionCall':
            name = x.function.name
            if name == 'int':
                return True
            if name in ('len', 'sum', 'prod', 'max', 'min', 'gcd') and len(x.arguments) == 1:
                return True
    return False


def readings_for(*nodes):
    if any(needs_readings(n) for n in nodes):
        return E.ALL_READINGS
    return E.ALL_READINGS[:1]


class Comparison:
    """Result of comparing an input with an output on a list of environments."""

    __slots__ = ('judged', 'skipped', 'witness')

    def __init__(self):
        self.judged = 0
        self.skipped = {}
        self.witness = None

    def skip(self, why):
        self.skipped[why] = self.skipped.get(why, 0) + 1


def compare_values(f_in_by_reading, f_out_by_reading, envs, combine_out=None):
    """f_*_by_reading: list (one per reading) of compiled functions.  A witness is an environment
    on which, under *every* reading, the input is defined and the output is undefined or different."""
    cmp = Comparison()
    for env in envs:
        disagreements = []
        usable = True
        for f_in, f_out in zip(f_in_by_reading, f_out_by_reading):
            st, vin = E.run(f_in, env)
            if st != 'ok':
                cmp.skip(st)
                usable = False
                break
            st2, vout = E.run(f_out, env)
            if st2 in ('fragile', 'ambiguous'):
                cmp.skip('out-' + st2)
                usable = False
                break
            if st2 == 'ok':
                try:
                    same = E.same_result(vin, vout)
                except Exception:
                    same = False
                if same:
                    usable = False  # agrees under this reading: no violation on this environment
                    cmp.judged += 1
                    break
                disagreements.append((vin, ('ok', vout)))
            else:
                disagreements.append((vin, (st2, vout)))
        if usable and disagreements and len(disagreements) == len(f_in_by_reading):
            cmp.judged += 1
            if cmp.witness is None:
                vin, vo = disagreements[0]
                cmp.witness = {'env': env_repr(env), 'input_value': repr(vin), 'output': repr(vo)[:200]}
    return cmp


def env_repr(env):
    return {'this': env.this, 'aliases': env.aliases}


def compile_all(h, strict, readings):
    return [E.compile_expr(h, strict, r) for r in readings]


def conj_compile(nodes, readings):
    """compiled lenient conjunction of a list of hpl boolean expressions"""
    out = []
    for r in readings:
        fs = [E.compile_expr(n, False, r) for n in nodes]

        def f(env, fs=fs):
            err = None
            for g in fs:
                try:
                    v = g(env)
                except E.Undefined as e:
                    err = e
                    continue
                if v is False:
                    return False
                if v is not True:
                    raise E.Undefined('conjunct is not boolean')
            if err is not None:
                raise err
            return True
        out.append(f)
    return out


def divisor_zero_everywhere(h, envs):
    """Is there a division in h whose divisor is zero (or undefined) on every environment tried?"""
    for x in E._walk(h):
        if type(x).__name__ == 'HplBinaryOperator' and x.operator.token == '/':
            f = E.compile_expr(x.operand2, False)
            allzero = True
            for env in envs:
                st, v = E.run(f, env)
                if st == 'ok' and v != 0:
                    allzero = False
                    break
                if st in ('fragile', 'ambiguous'):
                    allzero = False
                    break
            if allzero:
                return True
    return False


def power_bomb(h, astronomical_only=False):
    """A reference-free power whose value is astronomically large (1234567890123456789 ** 1e18, 10 ** (10 ** 10)):
    before repository commit 893391d hpl's constant folding computed it with Python big integers and did not come
    back.  Such inputs contain an undefined constant sub-expression in the modelled semantics (overflow) and are not
    handed to the rewriting functions.  With astronomical_only (C14) integer powers of up to ~10^6 bits are let
    through: folding them is quick, and they are what shows a regression of that repair."""
    if getattr(h, 'is_predicate', False):
        h = h.condition
    for x in E._walk(h):
        if type(x).__name__ == 'HplBinaryOperator' and x.operator.token == '**' and E.is_reference_free(x):
            st, v = E.run(E.compile_expr(x, True), E.Env())
            if st != 'ok' and ('too large' in str(v) or 'overflow' in str(v).lower() or 'recursion' in str(v)):
                if astronomical_only and 'too large' in str(v):
                    sa, a = E.run(E.compile_expr(x.operand1, True), E.Env())
                    sb, b = E.run(E.compile_expr(x.operand2, True), E.Env())
                    if sa == 'ok' and sb == 'ok' and isinstance(a, int) and isinstance(b, int) \
                            and b * max(1, abs(a).bit_length()) <= 1000000:
                        continue
                return True
    return False


def undefined_everywhere(h, envs):
    """Under some admissible reading the expression evaluates without error on no environment of
    the grid: it has no defined value to preserve, so a raise while rewriting it is not judged."""
    for r in readings_for(h):
        f = E.compile_expr(h, True, r)
        if not any(E.run(f, env)[0] == 'ok' for env in envs):
            return True
    return False


def full_grid(names_num, names_bool, num_values=(0, 1, -1, 2, 0.5), limit=256):
    """all valuations of flat numeric/boolean fields (small-scope terms)"""
    spaces = [num_values] * len(names_num) + [(True, False)] * len(names_bool)
    total = 1
    for s in spaces:
        total *= len(s)
    names = list(names_num) + list(names_bool)
    if total <= limit:
        for combo in itertools.product(*spaces):
            yield dict(zip(names, combo))
    else:
        import random

        r = random.Random(total)
        for corner in (0, 1):
            yield {n: (corner if n in names_num else bool(corner)) for n in names}
        for _ in range(limit - 2):
            yield {n: (r.choice(num_values) if n in names_num else r.random() < 0.5) for n in names}


# ------------------------------------------------------------------------------------------
# small-scope shapes (placeholders ('L',) numeric leaf, ('B',) boolean leaf)
# ------------------------------------------------------------------------------------------
_NUM_SHAPES = {}
_BOOL_SHAPES = {}


def num_shapes(k):
    if k in _NUM_SHAPES:
        return _NUM_SHAPES[k]
    if k == 0:
        out = [('L',)]
    else:
        out = [A.neg(t) for t in num_shapes(k - 1)]
        for op in A.ARITH_BIN:
            for i in range(k):
                for a in num_shapes(i):
                    for b in num_shapes(k - 1 - i):
                        out.append(('bin', op, a, b))
    _NUM_SHAPES[k] = out
    return out


def bool_shapes(k, relops=('=', '!=', '<', '<=', '>', '>=')):
    key = (k, relops)
    if key in _BOOL_SHAPES:
        return _BOOL_SHAPES[key]
    if k == 0:
        out = [('B',)]
    else:
        out = [A.not_(t) for t in bool_shapes(k - 1, relops)]
        for op in A.BOOL_BIN:
            for i in range(k):
                for a in bool_shapes(i, relops):
                    for b in bool_shapes(k - 1 - i, relops):
                        out.append(('bin', op, a, b))
        for op in relops:
            for i in range(k):
                for a in num_shapes(i):
                    for b in num_shapes(k - 1 - i):
                        out.append(('bin', op, a, b))
    _BOOL_SHAPES[key] = out
    return out


def fill(shape, rng, num_leaves, bool_leaves):
    t = shape[0]
    if t == 'L':
        return gen.pick(rng, num_leaves)
    if t == 'B':
        return gen.pick(rng, bool_leaves)
    ks = A.children(shape)
    if not ks:
        return shape
    return A.rebuild(shape, [fill(k, rng, num_leaves, bool_leaves) for k in ks])


SS_THIS = ('msg', {'x': gen.NUM, 'y': gen.NUM, 'p': gen.BOOL, 'q': gen.BOOL, 's': gen.STR,
                   'xs': ('arr', gen.NUM, -1), 'bs': ('arr', gen.BOOL, -1)}, {})
SS_ALIAS = ('msg', {'v': gen.NUM, 'b': gen.BOOL, 'ys': ('arr', gen.NUM, -1)}, {})
SS_NUM_LEAVES = (A.fld('x'), A.fld('x'), A.fld('y'), ('field', A.var('A'), 'v'), A.num('0'), A.num('1'), A.num('2'))
SS_BOOL_LEAVES = (A.fld('p'), A.fld('p'), A.fld('q'), ('field', A.var('A'), 'b'), A.boolean(True), A.boolean(False))


def ss_envs(e, limit=200):
    """complete grid over the small-scope fields that e mentions"""
    used_num, used_bool = [], []
    for x in A.walk(e):
        if x[0] == 'field':
            if x[1] == A.THIS and x[2] in ('x', 'y') and x[2] not in used_num:
                used_num.append(x[2])
            if x[1] == A.THIS and x[2] in ('p', 'q') and x[2] not in used_bool:
                used_bool.append(x[2])
            if x[1] == A.var('A') and x[2] == 'v' and 'A.v' not in used_num:
                used_num.append('A.v')
            if x[1] == A.var('A') and x[2] == 'b' and 'A.b' not in used_bool:
                used_bool.append('A.b')
    envs = []
    for val in full_grid(used_num, used_bool, limit=limit):
        this = {'x': 0, 'y': 0, 'p': False, 'q': False, 's': 'a', 'xs': [0, 1], 'bs': [True]}
        al = {'v': 0, 'b': False, 'ys': [1]}
        for k, v in val.items():
            if k.startswith('A.'):
                al[k[2:]] = v
            else:
                this[k] = v
        envs.append(E.Env(this, {'A': al}))
    return envs


# ------------------------------------------------------------------------------------------
# free variables / references of an hpl AST (own walk over public attributes)
# ------------------------------------------------------------------------------------------
def hpl_free_vars(h, bound=frozenset()):
    cls = type(h).__name__
    if cls == 'HplVarReference':
        return set() if h.name in bound else {h.name}
    if cls == 'HplQuantifier':
        return hpl_free_vars(h.domain, bound) | hpl_free_vars(h.condition, bound | {h.variable})
    out = set()
    for k in hpl_kids(h):
        out |= hpl_free_vars(k, bound)
    return out


def hpl_kids(h):
    cls = type(h).__name__
    if cls == 'HplFieldAccess':
        return (h.message,)
    if cls == 'HplArrayAccess':
        return (h.array, h.index)
    if cls == 'HplSet':
        return tuple(h.values)
    if cls == 'HplRange':
        return (h.min_value, h.max_value)
    if cls == 'HplUnaryOperator':
        return (h.operand,)
    if cls == 'HplBinaryOperator':
        return (h.operand1, h.operand2)
    if cls == 'HplQuantifier':
        return (h.domain, h.condition)
    if cls == 'HplFunctionCall':
        return tuple(h.arguments)
    return ()


def hpl_all_var_names(h):
    return {x.name for x in E._walk(h) if type(x).__name__ == 'HplVarReference'}


def hpl_bound_names(h):
    return {x.variable for x in E._walk(h) if type(x).__name__ == 'HplQuantifier'}


def hpl_has_this(h):
    return any(type(x).__name__ == 'HplThisMessage' for x in E._walk(h))


def derive_with_but(h, limit=2):
    """[(label, h2)]: trees obtained from h through the copy-with-changes API (`but`), generally with another meaning:
    operands of the root swapped, the root quantifier flipped, an operand replaced by its sibling.  Used for
    histories "call f(h); derive h2 from h; call f(h2)" - nothing remembered about h may leak into the answer for h2."""
    out = []
    is_pred = bool(getattr(h, 'is_predicate', False))
    if is_pred and getattr(h, 'is_vacuous', False):
        return out
    e = h.condition if is_pred else h
    cands = []
    t = type(e).__name__
    try:
        if t == 'HplBinaryOperator':
            cands.append(('swap-operands', lambda: e.but(operand1=e.operand2, operand2=e.operand1)))
            cands.append(('second-operand-twice', lambda: e.but(operand1=e.operand2)))
        elif t == 'HplQuantifier':
            from hpl.ast.expressions import QuantifierType
            other = QuantifierType.SOME if e.is_universal else QuantifierType.ALL
            cands.append(('flip-quantifier', lambda: e.but(quantifier=other)))
        elif t == 'HplUnaryOperator' and type(e.operand).__name__ == 'HplBinaryOperator':
            inner = e.operand
            cands.append(('swap-inner-operands', lambda: e.but(operand=inner.but(operand1=inner.operand2, operand2=inner.operand1))))
    except Exception:
        return out
    for label, thunk in cands[:limit]:
        try:
            e2 = thunk()
            if e2 is e or e2 == e:
                continue
            h2 = h.but(expression=e2) if is_pred else e2
        except Exception:
            continue
        out.append((label, h2))
    return out
