"""Human-written inputs: every string literal of the repository's tests and every code block / inline code span of
its documentation, classified by which of hpl's parsers accepts it. The generators cover shapes; this corpus
covers the idioms the maintainers actually write (channel names, units, comments, layouts)."""
import ast
import os
import re

from . import env, hplapi

KINDS = ('property', 'specification', 'predicate', 'expression')
_cache = {}


def candidates():
    """[(origin, text)] in a deterministic order, de-duplicated"""
    out = []
    seen = set()

    def add(origin, text):
        t = text.strip('\n')
        if not t.strip() or len(t) > 4000 or t in seen:
            return
        seen.add(t)
        out.append((origin, t))

    root = os.path.dirname(env.SRC)
    tdir = os.path.join(root, 'tests')
    for fn in sorted(os.listdir(tdir)) if os.path.isdir(tdir) else ():
        if not fn.endswith('.py'):
            continue
        try:
            tree = ast.parse(open(os.path.join(tdir, fn), encoding='utf8').read())
        except (SyntaxError, OSError):
            continue
        for node in ast.walk(tree):
            if isinstance(node, ast.Constant) and isinstance(node.value, str):
                add('tests/' + fn, node.value)
    docs = [os.path.join(root, 'README.md')]
    ddir = os.path.join(root, 'docs')
    if os.path.isdir(ddir):
        docs += [os.path.join(ddir, fn) for fn in sorted(os.listdir(ddir)) if fn.endswith('.md')]
    for path in docs:
        try:
            text = open(path, encoding='utf8').read()
        except OSError:
            continue
        name = os.path.relpath(path, root)
        for m in re.finditer(r'```[^\n]*\n(.*?)```', text, re.S):
            block = m.group(1)
            add(name, block)
            for line in block.splitlines():
                add(name, line)
            # blank-line separated paragraphs of a block are often separate examples
            for para in re.split(r'\n\s*\n', block):
                add(name, para)
        for m in re.finditer(r'`([^`\n]+)`', text):
            add(name, m.group(1))
    return out


def accepted(kind):
    """[(origin, text)] of the corpus entries that hpl's `kind` parser accepts on the tree under test"""
    if kind in _cache:
        return _cache[kind]
    p = hplapi.parser(kind)
    out = []
    for origin, text in candidates():
        o = hplapi.outcome(p.parse, text)
        if o[0] == 'ok':
            out.append((origin, text))
    _cache[kind] = out
    return out


def rejected(kind):
    p = hplapi.parser(kind)
    out = []
    for origin, text in candidates():
        o = hplapi.outcome(p.parse, text)
        if o[0] != 'ok':
            out.append((origin, text, type(o[1]).__name__))
    return out
