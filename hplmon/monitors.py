"""Monitors attached from the harness process (the repository is not edited for them).

D  - DataType postcondition monitor: wraps DataType.cast/can_be/union on the real class and
     judges every call (also the ones hpl makes internally) against the frozenset model.
S  - snapshot differ: canonical deep encoding of an AST through attrs.fields.
T  - step counter (sys.monitoring PY_START) for a logical, deterministic cost of one call.
A  - audit hook counting I/O-ish events while an hpl call is on the stack.
W  - write barrier: sys.monitoring CALL events on object.__setattr__ / __delattr__.
"""
import collections
import sys

from .model import typeset


# ------------------------------------------------------------------------------------------
# D
# ------------------------------------------------------------------------------------------
class DMonitor:
    def __init__(self):
        self.installed = False
        self.calls = collections.Counter()
        self.pairs = set()
        self.faults = []
        self.enabled = True

    def install(self):
        if self.installed:
            return self
        from hpl.types import DataType

        self.DT = DataType
        self.bridge = typeset.Bridge(DataType)
        self._orig = {
            'cast': DataType.cast,
            'can_be': DataType.can_be,
            'union': DataType.__dict__['union'],
        }
        mon = self
        orig_cast, orig_can_be = DataType.cast, DataType.can_be
        orig_union = DataType.union

        def cast(self, t):
            try:
                r = orig_cast(self, t)
            except BaseException as e:
                if mon.enabled:
                    mon._judge_cast(self, t, None, e)
                raise
            if mon.enabled:
                mon._judge_cast(self, t, r, None)
            return r

        def can_be(self, t):
            r = orig_can_be(self, t)
            if mon.enabled:
                mon._judge_can_be(self, t, r)
            return r

        def union(types):
            # the callee receives the kind of iterable the caller passed: a one-shot iterator stays one-shot
            if iter(types) is types:
                types = list(types)
                r = orig_union(iter(types))
            else:
                r = orig_union(types)
                types = list(types)
            if mon.enabled:
                mon._judge_union(types, r)
            return r

        DataType.cast = cast
        DataType.can_be = can_be
        DataType.union = staticmethod(union)
        self.installed = True
        return self

    def _fault(self, what, **kw):
        if len(self.faults) < 50:
            self.faults.append({'what': what, **{k: repr(v) for k, v in kw.items()}})
        self.calls['faults'] += 1

    def _judge_cast(self, s, t, r, exc):
        self.calls['cast'] += 1
        try:
            S, T = self.bridge.bits(s), self.bridge.bits(t)
        except TypeError:
            return  # not a DataType argument: outside the property
        self.pairs.add((typeset.code(S), typeset.code(T)))
        I = S & T
        if not I:
            if exc is None:
                self._fault('cast of disjoint sets returned', s=s, t=t, r=r)
            elif not isinstance(exc, TypeError):
                self._fault('cast of disjoint sets raised non-TypeError', s=s, t=t, exc=exc)
        else:
            if exc is not None:
                self._fault('cast of overlapping sets raised', s=s, t=t, exc=exc)
            else:
                try:
                    R = self.bridge.bits(r)
                except TypeError:
                    self._fault('cast returned a non-DataType', s=s, t=t, r=r)
                    return
                if R != I or r != self.bridge.member(I):
                    self._fault('cast result is not the intersection', s=s, t=t, r=r)

    def _judge_can_be(self, s, t, r):
        self.calls['can_be'] += 1
        try:
            S, T = self.bridge.bits(s), self.bridge.bits(t)
        except TypeError:
            return
        if r is not bool(S & T):
            self._fault('can_be is not non-empty intersection', s=s, t=t, r=r)

    def _judge_union(self, types, r):
        self.calls['union'] += 1
        try:
            U = frozenset().union(*[self.bridge.bits(t) for t in types]) if types else frozenset()
            R = self.bridge.bits(r)
        except TypeError:
            return
        if R != U or r != self.bridge.member(U):
            self._fault('union is not set union', types=types, r=r)


D = DMonitor()


# ------------------------------------------------------------------------------------------
# S - snapshots
# ------------------------------------------------------------------------------------------
def _is_attrs(o):
    return hasattr(type(o), '__attrs_attrs__')


def snapshot(o, with_ids=False, with_meta=True, with_types=True):
    """Canonical, hashable, NaN-proof encoding of an AST (or any value inside one).

    Every attrs field in declaration order, floats by repr, enums by class and name, the
    metadata dict by sorted items.  With with_ids the identity of every node and of every
    metadata dict is part of the encoding (used to detect sharing and replacement)."""
    import enum

    if _is_attrs(o):
        parts = [type(o).__name__]
        if with_ids:
            parts.append(id(o))
        for a in type(o).__attrs_attrs__:
            v = getattr(o, a.name)
            if a.name == 'metadata':
                if not with_meta:
                    continue
                enc = tuple(sorted((str(k), snapshot(x, with_ids, with_meta, with_types)) for k, x in v.items()))
                parts.append(('metadata', id(v) if with_ids else 0, enc))
            elif a.name == 'data_type' and not with_types:
                continue
            else:
                parts.append((a.name, snapshot(v, with_ids, with_meta, with_types)))
        return tuple(parts)
    if isinstance(o, enum.Enum):
        return ('enum', type(o).__name__, o._name_ if o._name_ is not None else repr(o._value_))
    if isinstance(o, bool) or o is None:
        return (type(o).__name__, o)
    if isinstance(o, str):
        return ('str', str.__str__(o))  # lark Token is a str subclass: same value, same encoding
    if isinstance(o, int):
        return ('int', int(o))
    if isinstance(o, float):
        return ('float', repr(o))
    if isinstance(o, (tuple, list)):
        return (type(o).__name__,) + tuple(snapshot(x, with_ids, with_meta, with_types) for x in o)
    if isinstance(o, dict):
        return ('dict',) + tuple(sorted((str(k), snapshot(x, with_ids, with_meta, with_types)) for k, x in o.items()))
    if isinstance(o, (set, frozenset)):
        return ('set',) + tuple(sorted(repr(snapshot(x, with_ids, with_meta, with_types)) for x in o))
    return ('opaque', type(o).__name__, repr(o))


def walk_attrs(o, seen=None):
    """Generic pre-order walk over attrs-reachable AST nodes (not via children())."""
    stack = [o]
    while stack:
        x = stack.pop()
        if _is_attrs(x):
            yield x
            kids = []
            for a in type(x).__attrs_attrs__:
                if a.name == 'metadata':
                    continue
                v = getattr(x, a.name)
                if _is_attrs(v):
                    kids.append(v)
                elif isinstance(v, (tuple, list)):
                    kids.extend(k for k in v if _is_attrs(k))
            stack.extend(reversed(kids))


# ------------------------------------------------------------------------------------------
# T - logical step counter
# ------------------------------------------------------------------------------------------
class CpuBudgetExceeded(BaseException):
    """raised inside the monitored call by the SIGVTALRM handler (BaseException: no `except Exception` in the code
    under test or in the harness swallows it)"""


class CpuBudget:
    """Bounded-progress monitor: the body may use at most `seconds` of this process's *user CPU time* (ITIMER_VIRTUAL
    only runs while the process executes, so machine load does not shorten it). C loops of the interpreter that poll
    for signals (the regular-expression engine does) are interrupted as well."""

    def __init__(self, seconds):
        self.seconds = seconds
        self._old = None

    @staticmethod
    def _fire(signum, frame):
        raise CpuBudgetExceeded()

    def __enter__(self):
        import signal
        self._old = signal.signal(signal.SIGVTALRM, self._fire)
        signal.setitimer(signal.ITIMER_VIRTUAL, self.seconds)
        return self

    def __exit__(self, *exc):
        import signal
        try:
            signal.setitimer(signal.ITIMER_VIRTUAL, 0)
        except CpuBudgetExceeded:  # fired between the end of the body and the cancellation
            signal.setitimer(signal.ITIMER_VIRTUAL, 0)
        signal.signal(signal.SIGVTALRM, self._old)
        return False


class StepCounter:
    TOOL = 3

    def __init__(self):
        self.n = 0
        self.active = False

    def start(self):
        mon = sys.monitoring
        if mon.get_tool(self.TOOL) is None:
            mon.use_tool_id(self.TOOL, 'hplmon-steps')
        self.n = 0

        def cb(code, off):
            self.n += 1

        ev = mon.events
        mon.register_callback(self.TOOL, ev.PY_START, cb)
        mon.register_callback(self.TOOL, ev.PY_RESUME, cb)
        mon.set_events(self.TOOL, ev.PY_START | ev.PY_RESUME)
        self.active = True

    def stop(self):
        mon = sys.monitoring
        mon.set_events(self.TOOL, 0)
        self.active = False
        return self.n


# ------------------------------------------------------------------------------------------
# A - audit hook
# ------------------------------------------------------------------------------------------
class Audit:
    WATCH = ('open', 'os.', 'subprocess.', 'socket.', 'shutil.', 'import', 'exec', 'compile')

    def __init__(self):
        self.armed = False
        self.events = collections.Counter()
        self.installed = False

    def install(self):
        if self.installed:
            return

        def hook(event, args):
            if self.armed and event.startswith(self.WATCH):
                self.events[event] += 1

        sys.addaudithook(hook)
        self.installed = True


AUDIT = Audit()


# ------------------------------------------------------------------------------------------
# W - write barrier
# ------------------------------------------------------------------------------------------
class WriteBarrier:
    """Records every object.__setattr__/__delattr__ call whose target is a *published* node
    (registered with publish()) and whose value differs from the current one."""

    TOOL = 4

    def __init__(self):
        self.published = {}
        self.writes_total = 0
        self.writes_published = []
        self.active = False

    def publish(self, root):
        for n in walk_attrs(root):
            self.published[id(n)] = n  # strong ref keeps ids unique

    def start(self):
        mon = sys.monitoring
        if mon.get_tool(self.TOOL) is None:
            mon.use_tool_id(self.TOOL, 'hplmon-writes')
        targets = (object.__setattr__, object.__delattr__)
        DISABLE = mon.DISABLE

        def cb(code, off, callee, arg0):
            if callee not in targets:
                return DISABLE
            self.writes_total += 1
            if id(arg0) in self.published and self.published[id(arg0)] is arg0:
                self.writes_published.append(
                    {'target': type(arg0).__name__, 'where': f'{code.co_filename.rsplit("/", 1)[-1]}:{code.co_name}'}
                )
            return None

        mon.register_callback(self.TOOL, mon.events.CALL, cb)
        mon.set_events(self.TOOL, mon.events.CALL)
        self.active = True

    def stop(self):
        sys.monitoring.set_events(self.TOOL, 0)
        self.active = False
