"""Import origin control: make sure the hpl package under test is the working tree of the
repository named by $HPLMON_REPO (default /repo), and describe that tree for the evidence."""
import hashlib
import os
import subprocess
import sys

REPO = os.environ.get('HPLMON_REPO', '/repo')
SRC = os.path.join(REPO, 'src')
VERIF = os.path.dirname(os.path.dirname(os.path.abspath(__file__)))


def setup_import():
    """Put <repo>/src first on sys.path and assert hpl is loaded from there."""
    if sys.path[0] != SRC:
        sys.path.insert(0, SRC)
    for name in list(sys.modules):
        if name == 'hpl' or name.startswith('hpl.'):
            f = getattr(sys.modules[name], '__file__', None) or ''
            if not os.path.abspath(f).startswith(os.path.abspath(SRC)):
                del sys.modules[name]
    import hpl  # noqa

    origin = os.path.abspath(hpl.__file__)
    if not origin.startswith(os.path.abspath(SRC) + os.sep):
        raise RuntimeError(f'hpl imported from {origin}, expected under {SRC}')
    return origin


def assert_origin():
    bad = []
    for name, mod in list(sys.modules.items()):
        if name == 'hpl' or name.startswith('hpl.'):
            f = getattr(mod, '__file__', None)
            if f and not os.path.abspath(f).startswith(os.path.abspath(SRC) + os.sep):
                bad.append((name, f))
    if bad:
        raise RuntimeError(f'hpl modules loaded from outside {SRC}: {bad}')


def tree_identity():
    def git(*args):
        try:
            return subprocess.run(
                ['git', '-C', REPO, *args], capture_output=True, text=True, timeout=30
            ).stdout
        except Exception as e:  # pragma: no cover
            return f'<{e}>'

    head = git('rev-parse', 'HEAD').strip()
    diff = git('diff', 'HEAD', '--', 'src')
    return {
        'repo': REPO,
        'head': head,
        'diff_sha256': hashlib.sha256(diff.encode()).hexdigest()[:16],
        'dirty': bool(diff.strip()),
    }
