"""Known findings: committed, line-oriented, never written at run time.

    known: property=C06 id=<slug> kind=<violation kind> requires=<feat>[,<feat>...] :: <what fails>
    fixed: property=C17 <commit> <what failed>

A violation (after shrinking) matches a `known:` line iff the property and kind are the same
and every feature named in `requires` is among the features the check computed from the
*shrunk* witness.  `fixed:` lines suppress nothing.  A feature is a mechanism tag such as
`node:call`, `op:**`, `exc:AssertionError`, never a hash, seed or literal value.
"""
import os
import re

from .env import VERIF

PATH = os.path.join(VERIF, 'known_findings.txt')


class Known:
    def __init__(self, prop, slug, kind, requires, forbids, text):
        self.prop = prop
        self.slug = slug
        self.kind = kind
        self.requires = requires
        self.forbids = forbids
        self.text = text

    def matches(self, prop, kind, features):
        if prop != self.prop or kind != self.kind:
            return False
        fs = set(features)
        return all(r in fs for r in self.requires) and not any(f in fs for f in self.forbids)


def load(path=PATH):
    known, fixed = [], []
    if not os.path.exists(path):
        return known, fixed
    for raw in open(path, encoding='utf8'):
        line = raw.strip()
        if not line or line.startswith('#'):
            continue
        if line.startswith('fixed:'):
            fixed.append(line)
            continue
        if not line.startswith('known:'):
            raise ValueError(f'bad line in {path}: {line!r}')
        head, _, text = line[len('known:'):].partition('::')
        kv = dict(re.findall(r'(\w+)=(\S+)', head))
        req = [r for r in kv.get('requires', '').split(',') if r]
        forb = [r for r in kv.get('forbids', '').split(',') if r]
        known.append(Known(kv['property'], kv['id'], kv['kind'], req, forb, text.strip()))
    return known, fixed


def classify(known, prop, kind, features):
    for k in known:
        if k.matches(prop, kind, features):
            return k
    return None


def constructs_to_avoid(known, prop):
    """Features named by known: lines of this property; the KF-free stratum avoids them."""
    out = set()
    for k in known:
        if k.prop == prop:
            out.update(k.requires)
    return out
