"""Reference semantics of HPL properties over finite timed traces (DESIGN.md section 4.2), reading
hpl property ASTs through public attributes only.

A trace is a list of messages (t, topic, payload) with strictly increasing integer timestamps,
launched at time 0.  holds(property, trace, reading) with reading 'R1' (a scope opens once, at the
first activator) or 'R2' (after-until re-opens at the next activator after each terminator)."""
import itertools
import math

from . import eval as E


class CompiledEvent:
    def __init__(self, h):
        self.alts = []
        for se in h.simple_events():
            pred = se.predicate
            cls = type(pred).__name__
            if cls == 'HplVacuousTruth':
                f = None
            elif cls == 'HplContradiction':
                f = False
            else:
                f = E.compile_expr(pred.condition, False)
            self.alts.append((str(se.name), se.alias, f))

    def match(self, msg, bindings):
        """bindings extended with this event's alias, or None"""
        t, topic, payload = msg
        for name, alias, f in self.alts:
            if name != topic:
                continue
            if f is False:
                return None
            if f is not None:
                st, v = E.run(f, E.Env(payload, bindings))
                if st != 'ok' or v is not True:
                    return None
            if alias:
                b = dict(bindings)
                b[alias] = payload
                return b
            return bindings
        return None


class CompiledProperty:
    def __init__(self, hp):
        self.scope = hp.scope.scope_type.name
        self.pattern = hp.pattern.pattern_type.name
        self.act = CompiledEvent(hp.scope.activator) if hp.scope.activator is not None else None
        self.term = CompiledEvent(hp.scope.terminator) if hp.scope.terminator is not None else None
        self.trig = CompiledEvent(hp.pattern.trigger) if hp.pattern.trigger is not None else None
        self.beh = CompiledEvent(hp.pattern.behaviour)
        self.T = hp.pattern.max_time

    def windows(self, trace, reading):
        """list of (start_time, end_time, bindings, index of the first message inside)"""
        n = len(trace)
        out = []
        if self.scope == 'GLOBAL':
            return [(0, math.inf, {}, 0)]
        if self.scope == 'UNTIL':
            end = math.inf
            for m in trace:
                if self.term.match(m, {}) is not None:
                    end = m[0]
                    break
            return [(0, end, {}, 0)]
        i = 0
        while i < n:
            b = self.act.match(trace[i], {})
            if b is None:
                i += 1
                continue
            start = trace[i][0]
            end = math.inf
            j = i + 1
            if self.scope == 'AFTER_UNTIL':
                while j < n:
                    if self.term.match(trace[j], b) is not None:
                        end = trace[j][0]
                        break
                    j += 1
            out.append((start, end, b, i + 1))
            if reading == 'R1' or self.scope == 'AFTER' or end == math.inf:
                break
            i = j + 1
        return out

    def holds(self, trace, reading='R1'):
        T = self.T
        for s, e, b0, first in self.windows(trace, reading):
            inside = [m for m in trace[first:] if m[0] > s and m[0] < e]
            if self.pattern == 'ABSENCE':
                for m in inside:
                    if m[0] - s <= T and self.beh.match(m, b0) is not None:
                        return False
            elif self.pattern == 'EXISTENCE':
                if not any(m[0] - s <= T and self.beh.match(m, b0) is not None for m in inside):
                    return False
            elif self.pattern in ('RESPONSE', 'PREVENTION'):
                for k, ma in enumerate(inside):
                    b1 = self.trig.match(ma, b0)
                    if b1 is None:
                        continue
                    found = any(mb[0] - ma[0] <= T and self.beh.match(mb, b1) is not None for mb in inside[k + 1:])
                    if found != (self.pattern == 'RESPONSE'):
                        return False
            elif self.pattern == 'REQUIREMENT':
                for k, mb in enumerate(inside):
                    b1 = self.beh.match(mb, b0)
                    if b1 is None:
                        continue
                    if not any(mb[0] - ma[0] <= T and self.trig.match(ma, b1) is not None for ma in inside[:k]):
                        return False
            else:
                raise ValueError(self.pattern)
        return True


def all_traces(topics, payloads, gaps, max_len):
    """every timed trace up to max_len over topics x payloads x gaps (timestamps by cumulative gaps)"""
    alphabet = [(tp, pl, g) for tp in topics for pl in payloads for g in gaps]
    for L in range(0, max_len + 1):
        for combo in itertools.product(alphabet, repeat=L):
            t = 0
            tr = []
            for tp, pl, g in combo:
                t += g
                tr.append((t, tp, pl))
            yield tr


def selftest():
    from hpl.parser import property_parser

    p = property_parser()

    def H(text, trace, reading='R1'):
        return CompiledProperty(p.parse(text)).holds(trace, reading)

    X0, X1 = {'x': 0}, {'x': 1}
    assert H('globally: no a', [(1, 'b', X0)])
    assert not H('globally: no a', [(1, 'b', X0), (2, 'a', X0)])
    assert H('globally: no a {x = 1}', [(2, 'a', X0)])
    assert not H('globally: some a', [])
    assert H('globally: some a within 2 s', [(2, 'a', X0)])
    assert not H('globally: some a within 1 s', [(2, 'a', X0)])
    assert H('globally: a causes b', [(1, 'a', X0), (2, 'b', X0)])
    assert not H('globally: a causes b', [(1, 'b', X0), (2, 'a', X0)])
    assert not H('globally: a causes b within 1 s', [(1, 'a', X0), (3, 'b', X0)])
    assert H('globally: a as A causes b {x = @A.x}', [(1, 'a', X1), (2, 'b', X0), (3, 'b', X1)])
    assert not H('globally: a as A causes b {x = @A.x}', [(1, 'a', X1), (2, 'b', X0)])
    assert H('globally: b requires a', [(1, 'a', X0), (2, 'b', X0)])
    assert not H('globally: b requires a', [(1, 'b', X0)])
    assert not H('globally: b as B requires a {x = @B.x}', [(1, 'a', X0), (2, 'b', X1)])
    assert H('globally: a forbids b', [(1, 'b', X0), (2, 'a', X0)])
    assert not H('globally: a forbids b within 2 s', [(1, 'a', X0), (3, 'b', X0)])
    assert H('globally: a forbids b within 1 s', [(1, 'a', X0), (3, 'b', X0)])
    assert H('after c: no a', [(1, 'a', X0), (2, 'c', X0)])
    assert not H('after c: no a', [(1, 'c', X0), (2, 'a', X0)])
    assert H('until c: no a', [(1, 'c', X0), (2, 'a', X0)])
    assert H('after c until d: no a', [(1, 'c', X0), (2, 'd', X0), (3, 'a', X0)])
    assert H('after c until d: no a', [(1, 'c', X0), (2, 'd', X0), (3, 'c', X0), (4, 'a', X0)], 'R1')
    assert not H('after c until d: no a', [(1, 'c', X0), (2, 'd', X0), (3, 'c', X0), (4, 'a', X0)], 'R2')
    assert H('globally: no (a or b {x = 1})', [(1, 'b', X0)]) and not H('globally: no (a or b {x = 1})', [(1, 'b', X1)])
    assert len(list(all_traces(['a', 'b'], [X0, X1], [1, 2], 2))) == 1 + 8 + 64
