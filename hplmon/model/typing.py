"""Independent typing tables (DESIGN.md Appendix A.2 / A.3) and the node-level invariant of C03.
Type sets are frozensets of base-type names (model/typeset.py); hpl's DataType members are decoded
through the base members by name."""
from . import typeset as T

B, N, S_, ARR, RNG, SET, MSG = 'BOOL', 'NUMBER', 'STRING', 'ARRAY', 'RANGE', 'SET', 'MESSAGE'
BOOL = frozenset({B})
NUM = frozenset({N})
STR = frozenset({S_})
PRIM = frozenset({B, N, S_})
ITEM = frozenset({B, N, S_, MSG})
COMPOUND = frozenset({ARR, RNG, SET})
MESSAGE = frozenset({MSG})
ARRAY = frozenset({ARR})
ANY = frozenset(T.BASE)

UNARY = {'not': (BOOL, BOOL), '-': (NUM, NUM)}
BINARY = {}
for _op in ('and', 'or', 'implies', 'iff'):
    BINARY[_op] = (BOOL, BOOL, BOOL)
for _op in ('=', '!='):
    BINARY[_op] = (PRIM, PRIM, BOOL)
for _op in ('<', '<=', '>', '>='):
    BINARY[_op] = (NUM, NUM, BOOL)
BINARY['in'] = (PRIM, COMPOUND, BOOL)
for _op in ('+', '-', '*', '/', '**'):
    BINARY[_op] = (NUM, NUM, NUM)

# function -> list of overloads (params tuple, variadic or None, result)
FUNCTIONS = {}
for _f in ('abs', 'sqrt', 'ceil', 'floor', 'sin', 'cos', 'tan', 'asin', 'acos', 'atan', 'deg', 'rad'):
    FUNCTIONS[_f] = [((NUM,), None, NUM)]
FUNCTIONS['bool'] = [((PRIM,), None, BOOL)]
FUNCTIONS['int'] = [((PRIM,), None, NUM)]
FUNCTIONS['float'] = [((PRIM,), None, NUM)]
FUNCTIONS['str'] = [((PRIM,), None, STR)]
for _f in ('len', 'sum', 'prod'):
    FUNCTIONS[_f] = [((COMPOUND,), None, NUM)]
for _f in ('log', 'atan2'):
    FUNCTIONS[_f] = [((NUM, NUM), None, NUM)]
for _f in ('max', 'min', 'gcd'):
    FUNCTIONS[_f] = [((COMPOUND,), None, NUM), ((NUM, NUM), NUM, NUM)]
for _f in ('roll', 'pitch', 'yaw'):
    FUNCTIONS[_f] = [((MESSAGE,), None, NUM), ((NUM, NUM, NUM, NUM), None, NUM)]


def overload_accepts(ov, argtypes):
    params, variadic, _ = ov
    if len(params) > len(argtypes):
        return False
    if len(params) < len(argtypes) and variadic is None:
        return False
    for a, p in zip(argtypes, params):
        if not (a & p):
            return False
    for a in argtypes[len(params):]:
        if not (a & variadic):
            return False
    return True


def call_param_union(fname, argtypes):
    """per-argument union of the parameter types over the overloads accepting argtypes (None if
    the function is unknown or no overload accepts)"""
    ovs = FUNCTIONS.get(fname)
    if ovs is None:
        return None
    acc = [ov for ov in ovs if overload_accepts(ov, argtypes)]
    if not acc:
        return None
    out = []
    for i in range(len(argtypes)):
        u = frozenset()
        for params, variadic, _ in acc:
            u |= params[i] if i < len(params) else variadic
        out.append(u)
    return out


def call_result(fname):
    ovs = FUNCTIONS.get(fname)
    if ovs is None:
        return None
    r = frozenset()
    for _, _, res in ovs:
        r |= res
    return r


# ------------------------------------------------------------------------------------------
# C03: node-level invariant over an hpl AST
# ------------------------------------------------------------------------------------------
class Invariant:
    """walks an hpl AST (attrs field walk) and reports every broken clause"""

    def __init__(self, bridge):
        self.br = bridge
        self.nodes = 0

    def bits(self, node):
        return self.br.bits(node.data_type)

    def check_expression(self, root, reports, where='', in_predicate=False):
        self._expr(root, reports, where, {})
        if in_predicate:
            # "all occurrences of the same reference inside one predicate share a possible type"
            self._same_reference(root, reports, where)

    def check_any(self, obj, reports, where=''):
        """obj: expression, predicate, event, property, specification, or list/tuple of those"""
        if isinstance(obj, (list, tuple)):
            for i, x in enumerate(obj):
                self.check_any(x, reports, f'{where}[{i}]')
            return
        cls = type(obj).__name__
        if getattr(obj, 'is_expression', False):
            self.check_expression(obj, reports, where)
        elif getattr(obj, 'is_predicate', False):
            if cls == 'HplPredicateExpression':
                e = obj.expression
                if self.bits(e) != BOOL:
                    reports.append((where, 'predicate-root-not-boolean', cls, sorted(self.bits(e))))
                self.check_expression(e, reports, where + '.expression', in_predicate=True)
        elif getattr(obj, 'is_event', False):
            if cls == 'HplSimpleEvent':
                self.check_any(obj.predicate, reports, f'{where}.{obj.name}')
            else:
                self.check_any(obj.event1, reports, where + '.event1')
                self.check_any(obj.event2, reports, where + '.event2')
        elif getattr(obj, 'is_property', False):
            for name, ev in (('activator', obj.scope.activator), ('terminator', obj.scope.terminator),
                             ('trigger', obj.pattern.trigger), ('behaviour', obj.pattern.behaviour)):
                if ev is not None:
                    self.check_any(ev, reports, f'{where}.{name}')
        elif getattr(obj, 'is_specification', False):
            for i, p in enumerate(obj.properties):
                self.check_any(p, reports, f'{where}.properties[{i}]')

    def _sub(self, child, param, reports, where, clause, parent):
        cb = self.bits(child)
        if not cb <= param:
            reports.append((where, clause, parent, f'{sorted(cb)} not within {sorted(param)}'))

    def _expr(self, h, reports, where, bound):
        self.nodes += 1
        cls = type(h).__name__
        try:
            t = self.bits(h)
        except Exception:
            reports.append((where, 'data_type-not-a-DataType', cls, repr(getattr(h, 'data_type', None))))
            return
        if not t:
            reports.append((where, 'empty-type-set', cls, ''))
        if cls == 'HplLiteral':
            v = h.value
            want = BOOL if isinstance(v, bool) else (STR if isinstance(v, str) else NUM)
            if t != want:
                reports.append((where, 'literal-type', cls, f'{sorted(t)} for value {v!r}'))
        elif cls == 'HplThisMessage':
            if t != MESSAGE:
                reports.append((where, 'this-type', cls, sorted(t)))
        elif cls == 'HplVarReference':
            if not t <= ITEM:
                reports.append((where, 'variable-type', cls, sorted(t)))
            if h.name in bound:
                elem = bound[h.name]
                if not (t & elem):
                    reports.append((where, 'bound-variable-vs-domain-element-type', cls,
                                    f'@{h.name}: {sorted(t)} vs {sorted(elem)}'))
        elif cls == 'HplSet':
            if t != frozenset({SET}):
                reports.append((where, 'set-type', cls, sorted(t)))
            for i, v in enumerate(h.values):
                self._sub(v, PRIM, reports, f'{where}.values[{i}]', 'set-element-type', cls)
                self._expr(v, reports, f'{where}.values[{i}]', bound)
        elif cls == 'HplRange':
            if t != frozenset({RNG}):
                reports.append((where, 'range-type', cls, sorted(t)))
            for name, v in (('min_value', h.min_value), ('max_value', h.max_value)):
                self._sub(v, NUM, reports, f'{where}.{name}', 'range-bound-type', cls)
                self._expr(v, reports, f'{where}.{name}', bound)
        elif cls == 'HplUnaryOperator':
            sig = UNARY.get(h.operator.token)
            if sig is None:
                reports.append((where, 'unknown-operator', cls, h.operator.token))
            else:
                if t != sig[1]:
                    reports.append((where, 'operator-result-type', f'{cls}:{h.operator.token}', sorted(t)))
                self._sub(h.operand, sig[0], reports, where + '.operand', 'operand-type', f'{cls}:{h.operator.token}')
            self._expr(h.operand, reports, where + '.operand', bound)
        elif cls == 'HplBinaryOperator':
            tok = h.operator.token
            sig = BINARY.get(tok)
            if sig is None:
                reports.append((where, 'unknown-operator', cls, tok))
            else:
                if t != sig[2]:
                    reports.append((where, 'operator-result-type', f'{cls}:{tok}', sorted(t)))
                self._sub(h.operand1, sig[0], reports, where + '.operand1', 'operand-type', f'{cls}:{tok}')
                self._sub(h.operand2, sig[1], reports, where + '.operand2', 'operand-type', f'{cls}:{tok}')
                if tok in ('=', '!='):
                    a, b = self.bits(h.operand1), self.bits(h.operand2)
                    if a != b:
                        reports.append((where, 'equality-sides-differ', f'{cls}:{tok}', f'{sorted(a)} vs {sorted(b)}'))
            self._expr(h.operand1, reports, where + '.operand1', bound)
            self._expr(h.operand2, reports, where + '.operand2', bound)
        elif cls == 'HplQuantifier':
            if t != BOOL:
                reports.append((where, 'quantifier-type', cls, sorted(t)))
            self._sub(h.domain, COMPOUND, reports, where + '.domain', 'quantifier-domain-type', cls)
            self._sub(h.condition, BOOL, reports, where + '.condition', 'quantifier-body-type', cls)
            dcls = type(h.domain).__name__
            if dcls == 'HplSet':
                elem = frozenset()
                for v in h.domain.values:
                    elem |= self.bits(v)
            elif dcls == 'HplRange':
                elem = NUM
            else:
                elem = PRIM
            self._expr(h.domain, reports, where + '.domain', bound)
            b2 = dict(bound)
            b2[h.variable] = elem
            self._expr(h.condition, reports, where + '.condition', b2)
        elif cls == 'HplFunctionCall':
            name = h.function.name
            res = call_result(name)
            if res is None:
                reports.append((where, 'unknown-function', cls, name))
            else:
                if t != res:
                    reports.append((where, 'function-result-type', f'{cls}:{name}', sorted(t)))
                argtypes = [self.bits(a) for a in h.arguments]
                union = call_param_union(name, argtypes)
                if union is None:
                    reports.append((where, 'no-overload-accepts', f'{cls}:{name}', [sorted(a) for a in argtypes]))
                else:
                    for i, (a, u) in enumerate(zip(h.arguments, union)):
                        self._sub(a, u, reports, f'{where}.arguments[{i}]', 'argument-type', f'{cls}:{name}')
            for i, a in enumerate(h.arguments):
                self._expr(a, reports, f'{where}.arguments[{i}]', bound)
        elif cls == 'HplFieldAccess':
            if not t <= (ITEM | ARRAY):
                reports.append((where, 'accessor-type', cls, sorted(t)))
            self._sub(h.message, MESSAGE, reports, where + '.message', 'accessed-object-type', cls)
            self._expr(h.message, reports, where + '.message', bound)
        elif cls == 'HplArrayAccess':
            if not t <= (ITEM | ARRAY):
                reports.append((where, 'accessor-type', cls, sorted(t)))
            self._sub(h.array, ARRAY, reports, where + '.array', 'accessed-object-type', cls)
            self._sub(h.index, NUM, reports, where + '.index', 'index-type', cls)
            self._expr(h.array, reports, where + '.array', bound)
            self._expr(h.index, reports, where + '.index', bound)
        else:
            reports.append((where, 'foreign-object', cls, ''))

    # ---- clause 6: all occurrences of one reference share a possible type ------------------------
    def _ref_key(self, h, scope):
        cls = type(h).__name__
        if cls == 'HplThisMessage':
            return ('this',)
        if cls == 'HplVarReference':
            return ('var', h.name, scope.get(h.name, 0))
        if cls == 'HplFieldAccess':
            k = self._ref_key(h.message, scope)
            return None if k is None else k + (('.', str(h.field)),)
        if cls == 'HplArrayAccess':
            k = self._ref_key(h.array, scope)
            if k is None:
                return None
            return k + (('[]', self._expr_key(h.index, scope)),)
        return None

    def _expr_key(self, h, scope):
        from .. import monitors

        k = self._ref_key(h, scope)
        if k is not None:
            return k
        return repr(monitors.snapshot(h, with_meta=False, with_types=False))

    def _same_reference(self, root, reports, where):
        groups = {}
        counter = [0]

        def rec(h, scope):
            cls = type(h).__name__
            if cls in ('HplFieldAccess', 'HplArrayAccess', 'HplVarReference'):
                k = self._ref_key(h, scope)
                if k is not None:
                    groups.setdefault(k, []).append(self.bits(h))
            if cls == 'HplQuantifier':
                rec(h.domain, scope)
                counter[0] += 1
                s2 = dict(scope)
                s2[h.variable] = counter[0]
                rec(h.condition, s2)
                return
            for k in _kids(h):
                rec(k, scope)

        rec(root, {})
        for k, ts in groups.items():
            meet = ANY
            for t in ts:
                meet = meet & t
            if not meet and len(ts) > 1:
                reports.append((where, 'same-reference-disjoint-types', 'reference', repr(k)[:120]))


def _kids(h):
    cls = type(h).__name__
    if cls == 'HplFieldAccess':
        return (h.message,)
    if cls == 'HplArrayAccess':
        return (h.array, h.index)
    if cls == 'HplSet':
        return tuple(h.values)
    if cls == 'HplRange':
        return (h.min_value, h.max_value)
    if cls == 'HplUnaryOperator':
        return (h.operand,)
    if cls == 'HplBinaryOperator':
        return (h.operand1, h.operand2)
    if cls == 'HplQuantifier':
        return (h.domain, h.condition)
    if cls == 'HplFunctionCall':
        return tuple(h.arguments)
    return ()


def selftest():
    assert call_param_union('max', [NUM, NUM, NUM]) == [NUM, NUM, NUM]
    assert call_param_union('max', [ITEM | ARRAY]) == [COMPOUND]
    assert call_param_union('roll', [ITEM]) == [MESSAGE | NUM] or call_param_union('roll', [ITEM]) == [MESSAGE]
    assert call_param_union('abs', [STR]) is None
    assert call_result('max') == NUM
    from hpl.types import DataType

    from hpl.parser import condition_parser

    inv = Invariant(T.Bridge(DataType))
    rep = []
    inv.check_any(condition_parser().parse('x > 1 and not p and y in [1 to 3] and forall i in xs: @i = z'), rep)
    assert rep == [], rep


# ------------------------------------------------------------------------------------------
# definite typing of an abstract expression against a schema (used to keep shrunk witnesses
# inside the domain "well-typed under the schema")
# ------------------------------------------------------------------------------------------
class IllTyped(Exception):
    pass


def abstract_type(e, this, aliases, bound=None):
    """Model type of abstract expression e: ('bool',) ('num',) ('str',) ('arr', T, n) ('msg', ..)
    ('set', kinds) ('range',).  Raises IllTyped."""
    bound = bound or {}
    t = e[0]
    P = (('bool',), ('num',), ('str',))

    def prim(x):
        ty = abstract_type(x, this, aliases, bound)
        if ty not in P:
            raise IllTyped(f'primitive expected: {x!r}')
        return ty

    def want(x, ty):
        got = abstract_type(x, this, aliases, bound)
        if got != ty:
            raise IllTyped(f'{ty} expected, got {got}')
        return got

    if t == 'lit':
        return {'bool': ('bool',), 'num': ('num',), 'str': ('str',)}[e[1]]
    if t == 'const':
        return ('num',)
    if t == 'this':
        if this is None:
            raise IllTyped('no current message')
        return this
    if t == 'var':
        if e[1] in bound:
            return bound[e[1]]
        if e[1] in aliases:
            return aliases[e[1]]
        raise IllTyped('unbound variable ' + e[1])
    if t == 'field':
        b = abstract_type(e[1], this, aliases, bound)
        if b[0] != 'msg':
            raise IllTyped('field of non-message')
        if e[2] in b[1]:
            return b[1][e[2]]
        if e[2] in b[2]:
            return b[2][e[2]][0]
        raise IllTyped('unknown field ' + e[2])
    if t == 'index':
        b = abstract_type(e[1], this, aliases, bound)
        if b[0] != 'arr':
            raise IllTyped('index of non-array')
        want(e[2], ('num',))
        return b[1]
    if t == 'set':
        kinds = frozenset(prim(k) for k in e[1])
        return ('set', kinds)
    if t == 'range':
        want(e[1], ('num',))
        want(e[2], ('num',))
        return ('range',)
    if t == 'un':
        if e[1] == 'not':
            want(e[2], ('bool',))
            return ('bool',)
        want(e[2], ('num',))
        return ('num',)
    if t == 'bin':
        op = e[1]
        if op in ('and', 'or', 'implies', 'iff'):
            want(e[2], ('bool',))
            want(e[3], ('bool',))
            return ('bool',)
        if op in ('<', '<=', '>', '>='):
            want(e[2], ('num',))
            want(e[3], ('num',))
            return ('bool',)
        if op in ('=', '!='):
            a, b = prim(e[2]), prim(e[3])
            if a != b:
                raise IllTyped('equality between different kinds')
            return ('bool',)
        if op == 'in':
            a = prim(e[2])
            c = abstract_type(e[3], this, aliases, bound)
            if elem_kinds(c) is None or a not in elem_kinds(c):
                raise IllTyped('membership kind mismatch')
            return ('bool',)
        want(e[2], ('num',))
        want(e[3], ('num',))
        return ('num',)
    if t == 'quant':
        if e[2] in bound:
            raise IllTyped('re-binding')
        d = abstract_type(e[3], this, aliases, bound)
        ks = elem_kinds(d)
        if ks is None or len(ks) != 1:
            raise IllTyped('quantifier domain')
        if e[2] in _vars(e[3]):
            raise IllTyped('variable in own domain')
        b2 = dict(bound)
        b2[e[2]] = next(iter(ks))
        if abstract_type(e[4], this, aliases, b2) != ('bool',):
            raise IllTyped('quantifier body')
        if e[2] not in _free(e[4], frozenset()):
            raise IllTyped('variable unused')
        return ('bool',)
    if t == 'call':
        name, args = e[1], e[2]
        tys = [abstract_type(a, this, aliases, bound) for a in args]
        if name in ('abs', 'sqrt', 'ceil', 'floor', 'sin', 'cos', 'tan', 'asin', 'acos', 'atan', 'deg', 'rad'):
            if tys != [('num',)]:
                raise IllTyped(name)
            return ('num',)
        if name in ('bool', 'int', 'float', 'str'):
            if len(tys) != 1 or tys[0] not in P:
                raise IllTyped(name)
            return {'bool': ('bool',), 'str': ('str',)}.get(name, ('num',))
        if name in ('len', 'sum', 'prod', 'max', 'min', 'gcd') and len(tys) == 1:
            ks = elem_kinds(tys[0])
            if ks is None:
                raise IllTyped(name)
            if name != 'len' and ks != frozenset({('num',)}):
                raise IllTyped(name)
            return ('num',)
        if name in ('max', 'min', 'gcd', 'log', 'atan2') and len(tys) >= 2 and all(x == ('num',) for x in tys):
            if name in ('log', 'atan2') and len(tys) != 2:
                raise IllTyped(name)
            return ('num',)
        if name in ('roll', 'pitch', 'yaw'):
            if (len(tys) == 1 and tys[0][0] == 'msg') or (len(tys) == 4 and all(x == ('num',) for x in tys)):
                return ('num',)
        raise IllTyped('call ' + name)
    raise IllTyped(repr(e))


def elem_kinds(c):
    if c[0] == 'arr':
        return frozenset({c[1]}) if c[1] in (('bool',), ('num',), ('str',)) else None
    if c[0] == 'set':
        return c[1]
    if c[0] == 'range':
        return frozenset({('num',)})
    return None


def _vars(e):
    from .. import absyn
    return absyn.all_vars(e)


def _free(e, bound):
    from .. import absyn
    return absyn.free_vars(e, bound)


def is_well_typed(e, this, aliases, want=None):
    try:
        t = abstract_type(e, this, aliases)
    except IllTyped:
        return False
    except Exception:
        return False
    return want is None or t == want
