"""Reference evaluator for HPL expressions over hpl ASTs, reading them only through public
attributes (DESIGN.md section 4.1).  An AST is compiled once into nested closures and then run
on many environments.

    f = compile_expr(node, strict=True, reading=Reading())
    value = f(env)          # env = Env(this=<dict>, aliases={name: dict}, vars={name: value})

Raises Undefined (evaluation error in the modelled semantics), Fragile (a float comparison within
1e-9 relative of a tie) or Ambiguous (construct whose meaning the documentation leaves open).
"""
import math


class Undefined(Exception):
    pass


class Fragile(Exception):
    pass


class Ambiguous(Exception):
    pass


class Reading:
    """Admissible readings where the documentation fixes no meaning."""

    __slots__ = ('set_as_list', 'int_floor')

    def __init__(self, set_as_list=False, int_floor=False):
        self.set_as_list = set_as_list
        self.int_floor = int_floor

    def __repr__(self):
        return f'Reading(set_as_list={self.set_as_list}, int_floor={self.int_floor})'


ALL_READINGS = (Reading(False, False), Reading(True, False), Reading(False, True), Reading(True, True))


class Env:
    __slots__ = ('this', 'aliases', 'vars')

    def __init__(self, this=None, aliases=None, vars=None):
        self.this = this
        self.aliases = aliases or {}
        self.vars = vars or {}


class SetV:
    __slots__ = ('items',)

    def __init__(self, items):
        self.items = list(items)


class RangeV:
    __slots__ = ('lo', 'hi', 'exlo', 'exhi')

    def __init__(self, lo, hi, exlo, exhi):
        self.lo, self.hi, self.exlo, self.exhi = lo, hi, exlo, exhi


def is_num(v):
    return isinstance(v, (int, float)) and not isinstance(v, bool)


def check_num(v):
    if not is_num(v):
        raise Undefined(f'not a number: {v!r}')
    if isinstance(v, float) and (v != v or v in (math.inf, -math.inf)):
        raise Undefined('non-finite number')
    if isinstance(v, int) and not isinstance(v, bool) and v.bit_length() > 1024:
        # HPL has one NUMBER type; a float beyond the double range is an overflow (undefined), and so is an integer
        # beyond it - Python's unbounded integers are an artefact of the implementation language
        raise Undefined('integer too large (beyond the double range)')
    return v


def kind(v):
    if isinstance(v, bool):
        return 'bool'
    if is_num(v):
        return 'num'
    if isinstance(v, str):
        return 'str'
    return type(v).__name__


def near(a, b):
    if a == b:
        return False
    # relative to the operands, with an absolute floor: re-associated float sums of O(1) terms differ by ~1e-16
    # around zero, which is no more meaningful than a relative 1e-16 elsewhere
    m = max(abs(a), abs(b), 1.0)
    return abs(a - b) <= 1e-9 * m


def values_equal(a, b):
    ka, kb = kind(a), kind(b)
    if ka != kb or ka not in ('bool', 'num', 'str'):
        raise Undefined(f'equality between {ka} and {kb}')
    if ka == 'num':
        check_num(a), check_num(b)
        if near(a, b):
            raise Fragile('near-tie equality')
    return a == b


def same_result(a, b):
    """Tolerant comparison of two final results (numbers within 1e-9 relative)."""
    ka, kb = kind(a), kind(b)
    if ka != kb:
        return False
    if ka == 'num':
        if a == b:
            return True
        return near(a, b)
    if ka in ('bool', 'str'):
        return a == b
    if isinstance(a, list):
        return len(a) == len(b) and all(same_result(x, y) for x, y in zip(a, b))
    if isinstance(a, dict):
        return a.keys() == b.keys() and all(same_result(a[k], b[k]) for k in a)
    if isinstance(a, SetV):
        # compare as sets under tolerant element equality
        return all(any(_eq_quiet(x, y) for y in b.items) for x in a.items) and all(
            any(_eq_quiet(x, y) for x in a.items) for y in b.items)
    if isinstance(a, RangeV):
        return (same_result(a.lo, b.lo) and same_result(a.hi, b.hi) and a.exlo == b.exlo and a.exhi == b.exhi)
    return a == b


def _eq_quiet(a, b):
    try:
        return same_result(a, b)
    except Exception:
        return False


def range_ints(r):
    lo, hi = check_num(r.lo), check_num(r.hi)
    if (isinstance(lo, float) and not lo.is_integer()) or (isinstance(hi, float) and not hi.is_integer()):
        raise Undefined('enumeration of a range with non-integer bounds')
    lo, hi = int(lo), int(hi)
    if r.exlo:
        lo += 1
    if r.exhi:
        hi -= 1
    if hi - lo > 5000:
        raise Undefined('range too large to enumerate')
    return list(range(lo, hi + 1))


def elements(v, reading, for_aggregate=False):
    if isinstance(v, list):
        return list(v)
    if isinstance(v, SetV):
        if reading.set_as_list or not for_aggregate:
            return list(v.items)
        out = []
        for x in v.items:
            if not any(_eq_kind(x, y) for y in out):
                out.append(x)
        return out
    if isinstance(v, RangeV):
        if for_aggregate and check_num(v.lo) > check_num(v.hi):
            raise Ambiguous('aggregate over a reversed range')
        return range_ints(v)
    raise Undefined(f'not a compound value: {kind(v)}')


def _eq_kind(a, b):
    if kind(a) != kind(b):
        return False
    return a == b


def contains(x, c):
    if isinstance(c, RangeV):
        check_num(x)
        lo, hi = check_num(c.lo), check_num(c.hi)
        if near(x, lo) or near(x, hi):
            raise Fragile('near-tie range bound')
        if x < lo or x > hi:
            return False
        if c.exlo and x == lo:
            return False
        if c.exhi and x == hi:
            return False
        return True
    if isinstance(c, (list, SetV)):
        items = c if isinstance(c, list) else c.items
        found = False
        for y in items:
            if kind(y) != kind(x):
                if kind(y) in ('bool', 'num', 'str') and kind(x) in ('bool', 'num', 'str'):
                    raise Undefined('membership across kinds')
                raise Undefined('membership of a non-primitive')
            if values_equal(x, y):
                found = True
        return found
    raise Undefined('membership in a non-compound')


def _uninterpreted(name, args):
    import hashlib

    h = hashlib.blake2b(repr((name, _canon(args))).encode(), digest_size=4).digest()
    return (int.from_bytes(h, 'big') % 2000 - 1000) / 8.0


def _canon(v):
    if isinstance(v, dict):
        return tuple(sorted((k, _canon(x)) for k, x in v.items()))
    if isinstance(v, (list, tuple)):
        return tuple(_canon(x) for x in v)
    if isinstance(v, float) and v.is_integer():
        return int(v)
    return v


TINY = 1e-9


def _residue(v):
    """a non-zero float so small that it may be the rounding residue of a re-associated sum of O(1) terms"""
    return isinstance(v, float) and v != 0 and abs(v) <= TINY


def _almost_integral(v):
    """a float that is not an integer but within rounding distance of one"""
    return isinstance(v, float) and not v.is_integer() and abs(v - round(v)) <= TINY * max(1.0, abs(v))


def _discontinuity(cond, what):
    # simplify() may re-associate and commute float arithmetic (real-number laws); results then differ by rounding
    # only, unless a discontinuous operation amplifies the difference: such valuations are not judged
    if cond:
        raise Fragile('rounding residue at a discontinuity: ' + what)


def _safe_pow(a, b):
    check_num(a), check_num(b)
    _discontinuity(_residue(a), 'tiny base of a power')
    _discontinuity(_residue(b) and abs(a) <= TINY, 'power near 0 ** 0')
    _discontinuity(a < 0 and _almost_integral(b), 'negative base, almost integral exponent')
    # the sign of a negative base's power depends on the parity of the exponent, which a float cannot carry
    # beyond 2**53: (-1.0) ** (27 ** 27) is 1.0 in float arithmetic and -1 exactly
    _discontinuity(a < 0 and abs(b) >= 2 ** 53, 'negative base, exponent parity beyond float precision')
    if isinstance(a, int) and isinstance(b, int):
        if b < 0:
            if a == 0:
                raise Undefined('0 ** negative')
            return float(a) ** b if abs(a) != 1 else a ** b
        if abs(a) > 1 and b * (a.bit_length() - 1) > 1024:
            raise Undefined('integer power too large (beyond the double range)')
        return a ** b
    try:
        r = a ** b
    except (OverflowError, ZeroDivisionError, ValueError) as e:
        raise Undefined(f'power: {e}')
    if isinstance(r, complex):
        raise Undefined('complex power')
    return check_num(r)


def _to_int(v, reading):
    if isinstance(v, bool):
        return int(v)
    if is_num(v):
        check_num(v)
        _discontinuity(_almost_integral(v), 'int() of an almost integral float')
        if isinstance(v, float) and not v.is_integer():
            return math.floor(v) if reading.int_floor else int(v)
        return int(v)
    if isinstance(v, str):
        try:
            return int(v)
        except ValueError:
            raise Undefined('int() of a non-numeric string')
    raise Undefined('int() of a non-primitive')


def _to_float(v):
    if isinstance(v, bool):
        return float(v)
    if is_num(v):
        try:
            return check_num(float(v))
        except OverflowError:
            raise Undefined('float overflow')
    if isinstance(v, str):
        try:
            return check_num(float(v))
        except ValueError:
            raise Undefined('float() of a non-numeric string')
    raise Undefined('float() of a non-primitive')


def _math1(fn, guard=None):
    def g(x):
        check_num(x)
        if guard is not None:
            guard(x)
        try:
            return check_num(fn(x))
        except (ValueError, OverflowError) as e:
            raise Undefined(str(e))
    return g


MATH1 = {
    'abs': lambda x: abs(check_num(x)),
    'sqrt': _math1(math.sqrt, lambda x: _discontinuity(_residue(x), 'sqrt of a tiny number')),
    'ceil': _math1(math.ceil, lambda x: _discontinuity(_almost_integral(x), 'ceil of an almost integral float')),
    'floor': _math1(math.floor, lambda x: _discontinuity(_almost_integral(x), 'floor of an almost integral float')),
    'sin': _math1(math.sin), 'cos': _math1(math.cos), 'tan': _math1(math.tan),
    'asin': _math1(math.asin, lambda x: _discontinuity(isinstance(x, float) and abs(x) != 1 and abs(abs(x) - 1) <= TINY, 'asin at the domain edge')),
    'acos': _math1(math.acos, lambda x: _discontinuity(isinstance(x, float) and abs(x) != 1 and abs(abs(x) - 1) <= TINY, 'acos at the domain edge')),
    'atan': _math1(math.atan),
    'deg': _math1(math.degrees), 'rad': _math1(math.radians),
}


def literal_value(node):
    v = node.value
    if isinstance(v, bool):
        return v
    if isinstance(v, str):
        tok = node.token
        if isinstance(tok, str) and len(tok) >= 2 and tok[0] == '"' and tok[-1] == '"':
            return _unescape(tok[1:-1])
        return v
    return v  # number, possibly non-finite (checked where used)


def _unescape(s):
    return s.replace('\\"', '"').replace('\\\\', '\\')


# ------------------------------------------------------------------------------------------
# compilation
# ------------------------------------------------------------------------------------------
def compile_expr(node, strict=True, reading=ALL_READINGS[0]):
    C = lambda n: compile_expr(n, strict, reading)  # noqa: E731
    cls = type(node).__name__

    if cls == 'HplLiteral':
        v = literal_value(node)
        if is_num(v):
            def f_lit(env, v=v):
                return check_num(v)
            return f_lit
        return lambda env, v=v: v

    if cls == 'HplThisMessage':
        def f_this(env):
            if env.this is None:
                raise Undefined('no current message')
            return env.this
        return f_this

    if cls == 'HplVarReference':
        name = node.name

        def f_var(env, name=name):
            if name in env.vars:
                return env.vars[name]
            if name in env.aliases:
                return env.aliases[name]
            raise Undefined(f'unbound @{name}')
        return f_var

    if cls == 'HplFieldAccess':
        fm = C(node.message)
        fld = node.field

        def f_field(env):
            m = fm(env)
            if not isinstance(m, dict) or fld not in m:
                raise Undefined(f'no field {fld}')
            return m[fld]
        return f_field

    if cls == 'HplArrayAccess':
        fa, fi = C(node.array), C(node.index)

        def f_index(env):
            a = fa(env)
            i = check_num(fi(env))
            if not isinstance(a, list):
                raise Undefined('indexing a non-array')
            if isinstance(i, float):
                if not i.is_integer():
                    raise Undefined('non-integer index')
                i = int(i)
            if i < 0 or i >= len(a):
                raise Undefined('index out of range')
            return a[i]
        return f_index

    if cls == 'HplSet':
        fs = [C(v) for v in node.values]
        return lambda env: SetV([f(env) for f in fs])

    if cls == 'HplRange':
        flo, fhi = C(node.min_value), C(node.max_value)
        exlo, exhi = bool(node.exclude_min), bool(node.exclude_max)
        return lambda env: RangeV(check_num(flo(env)), check_num(fhi(env)), exlo, exhi)

    if cls == 'HplUnaryOperator':
        fo = C(node.operand)
        tok = node.operator.token
        if tok == 'not':
            def f_not(env):
                v = fo(env)
                if not isinstance(v, bool):
                    raise Undefined('not of a non-boolean')
                return not v
            return f_not
        if tok == '-':
            return lambda env: -check_num(fo(env))
        raise Undefined(f'unknown unary operator {tok}')

    if cls == 'HplBinaryOperator':
        return _compile_binary(node, C, strict)

    if cls == 'HplQuantifier':
        fd, fb = C(node.domain), C(node.condition)
        var = node.variable
        universal = bool(node.is_universal)

        def f_quant(env):
            dom = elements(fd(env), reading)
            saved = env.vars
            results = []
            try:
                for x in dom:
                    env.vars = dict(saved)
                    env.vars[var] = x
                    if strict:
                        r = fb(env)
                        if not isinstance(r, bool):
                            raise Undefined('quantifier body is not boolean')
                        results.append(r)
                    else:
                        try:
                            r = fb(env)
                            if not isinstance(r, bool):
                                raise Undefined('quantifier body is not boolean')
                            results.append(r)
                        except Undefined:
                            results.append(None)
            finally:
                env.vars = saved
            if universal:
                if any(r is False for r in results):
                    return False
                if any(r is None for r in results):
                    raise Undefined('undefined body instance')
                return True
            if any(r is True for r in results):
                return True
            if any(r is None for r in results):
                raise Undefined('undefined body instance')
            return False
        return f_quant

    if cls == 'HplFunctionCall':
        return _compile_call(node, C, reading)

    raise Undefined(f'unknown node class {cls}')


def _bool(v):
    if not isinstance(v, bool):
        raise Undefined('boolean operand expected')
    return v


def _compile_binary(node, C, strict):
    tok = node.operator.token
    fa, fb = C(node.operand1), C(node.operand2)

    if tok in ('and', 'or', 'implies'):
        # a implies b == (not a) or b
        def f_logic(env):
            if strict:
                a, b = _bool(fa(env)), _bool(fb(env))
            else:
                a = b = None
                ea = eb = None
                try:
                    a = _bool(fa(env))
                except Undefined as e:
                    ea = e
                try:
                    b = _bool(fb(env))
                except Undefined as e:
                    eb = e
                if tok == 'and':
                    if a is False or b is False:
                        return False
                elif tok == 'or':
                    if a is True or b is True:
                        return True
                else:
                    if a is False or b is True:
                        return True
                if ea or eb:
                    raise ea or eb
            if tok == 'and':
                return a and b
            if tok == 'or':
                return a or b
            return (not a) or b
        return f_logic
    if tok == 'iff':
        return lambda env: _bool(fa(env)) == _bool(fb(env))
    if tok == '=':
        return lambda env: values_equal(fa(env), fb(env))
    if tok == '!=':
        return lambda env: not values_equal(fa(env), fb(env))
    if tok in ('<', '<=', '>', '>='):
        def f_cmp(env):
            a, b = check_num(fa(env)), check_num(fb(env))
            if near(a, b):
                raise Fragile('near-tie comparison')
            if tok == '<':
                return a < b
            if tok == '<=':
                return a <= b
            if tok == '>':
                return a > b
            return a >= b
        return f_cmp
    if tok == 'in':
        return lambda env: contains(fa(env), fb(env))
    if tok in ('+', '-', '*'):
        def f_arith(env):
            a, b = check_num(fa(env)), check_num(fb(env))
            try:
                r = a + b if tok == '+' else (a - b if tok == '-' else a * b)
            except OverflowError:
                raise Undefined('overflow')
            return check_num(r)
        return f_arith
    if tok == '/':
        def f_div(env):
            a, b = check_num(fa(env)), check_num(fb(env))
            _discontinuity(_residue(b), 'tiny divisor')
            if b == 0:
                raise Undefined('division by zero')
            try:
                return check_num(a / b)
            except OverflowError:
                raise Undefined('overflow')
        return f_div
    if tok == '**':
        return lambda env: _safe_pow(fa(env), fb(env))
    raise Undefined(f'unknown binary operator {tok}')


def _compile_call(node, C, reading):
    name = node.function.name
    fargs = [C(a) for a in node.arguments]
    n = len(fargs)

    if name in MATH1 and n == 1:
        g = MATH1[name]
        return lambda env: g(fargs[0](env))
    if name == 'bool' and n == 1:
        def f_bool(env):
            v = fargs[0](env)
            if kind(v) not in ('bool', 'num', 'str'):
                raise Undefined('bool() of a non-primitive')
            if is_num(v):
                check_num(v)
                _discontinuity(_residue(v), 'bool() of a tiny number')
            return bool(v)
        return f_bool
    if name == 'int' and n == 1:
        return lambda env: _to_int(fargs[0](env), reading)
    if name == 'float' and n == 1:
        return lambda env: _to_float(fargs[0](env))
    if name == 'str' and n == 1:
        def f_str(env):
            v = fargs[0](env)
            if kind(v) not in ('bool', 'num', 'str'):
                raise Undefined('str() of a non-primitive')
            if is_num(v):
                check_num(v)
                if isinstance(v, float) and v.is_integer():
                    # HPL has one NUMBER type; whether 1.0 prints as "1" or "1.0" is not documented
                    raise Ambiguous('str() of an integral float')
            return str(v)
        return f_str
    if name in ('len', 'sum', 'prod') and n == 1:
        def f_agg(env):
            v = fargs[0](env)
            if name == 'len' and isinstance(v, str):
                return len(v)
            items = elements(v, reading, for_aggregate=True)
            if name == 'len':
                return len(items)
            acc = 0 if name == 'sum' else 1
            for x in items:
                check_num(x)
                acc = acc + x if name == 'sum' else acc * x
            return check_num(acc)
        return f_agg
    if name in ('max', 'min', 'gcd'):
        def f_mm(env):
            if n == 1:
                items = elements(fargs[0](env), reading, for_aggregate=True)
            else:
                items = [f(env) for f in fargs]
            for x in items:
                check_num(x)
            if name == 'gcd':
                if not items:
                    raise Undefined('gcd of nothing')
                ints = []
                for x in items:
                    if isinstance(x, float):
                        if not x.is_integer():
                            raise Undefined('gcd of a non-integer')
                        raise Undefined('gcd of a float')
                    ints.append(x)
                return math.gcd(*ints)
            if not items:
                raise Undefined(f'{name} of nothing')
            return max(items) if name == 'max' else min(items)
        return f_mm
    if name == 'log' and n == 2:
        def f_log(env):
            x, b = check_num(fargs[0](env)), check_num(fargs[1](env))
            _discontinuity(_residue(x) or (isinstance(b, float) and b != 1 and abs(b - 1) <= TINY), 'log at a pole')
            try:
                return check_num(math.log10(x) if b == 10 else math.log(x, b))
            except (ValueError, ZeroDivisionError, OverflowError) as e:
                raise Undefined(str(e))
        return f_log
    if name == 'atan2' and n == 2:
        return lambda env: check_num(math.atan2(check_num(fargs[0](env)), check_num(fargs[1](env))))
    if name in ('roll', 'pitch', 'yaw'):
        return lambda env: _uninterpreted(name, [f(env) for f in fargs])
    raise Undefined(f'unknown function {name}/{n}')


# ------------------------------------------------------------------------------------------
# helpers for the checks
# ------------------------------------------------------------------------------------------
def run(f, env):
    """('ok', value) | ('undefined', msg) | ('fragile', msg) | ('ambiguous', msg)"""
    try:
        return ('ok', f(env))
    except Undefined as e:
        return ('undefined', str(e))
    except Fragile as e:
        return ('fragile', str(e))
    except Ambiguous as e:
        return ('ambiguous', str(e))
    except RecursionError:
        return ('undefined', 'recursion')
    except (OverflowError, MemoryError) as e:
        return ('undefined', f'overflow {e}')


def is_reference_free(node):
    for x in _walk(node):
        if type(x).__name__ in ('HplThisMessage', 'HplVarReference'):
            return False
    return True


def _walk(node):
    stack = [node]
    while stack:
        x = stack.pop()
        yield x
        cls = type(x).__name__
        if cls == 'HplFieldAccess':
            stack.append(x.message)
        elif cls == 'HplArrayAccess':
            stack.extend((x.index, x.array))
        elif cls == 'HplSet':
            stack.extend(reversed(x.values))
        elif cls == 'HplRange':
            stack.extend((x.max_value, x.min_value))
        elif cls == 'HplUnaryOperator':
            stack.append(x.operand)
        elif cls == 'HplBinaryOperator':
            stack.extend((x.operand2, x.operand1))
        elif cls == 'HplQuantifier':
            stack.extend((x.condition, x.domain))
        elif cls == 'HplFunctionCall':
            stack.extend(reversed(x.arguments))


def closed_subterm_undefined(node):
    """Does node contain a reference-free subterm that is itself undefined (or a division whose
    divisor is a reference-free term equal to zero)?  Only then may simplify raise."""
    for x in _walk(node):
        cls = type(x).__name__
        if cls in ('HplLiteral',):
            continue
        if is_reference_free(x):
            for rd in (ALL_READINGS[0], ALL_READINGS[3]):
                st, _ = run(compile_expr(x, True, rd), Env())
                if st in ('undefined', 'ambiguous'):
                    return True
        if cls == 'HplBinaryOperator' and x.operator.token == '/' and is_reference_free(x.operand2):
            st, v = run(compile_expr(x.operand2, True), Env())
            if st != 'ok' or v == 0:
                return True
    return False


def selftest():
    import sys

    from hpl.parser import expression_parser

    p = expression_parser()

    def ev(text, this=None, aliases=None, strict=True, reading=ALL_READINGS[0]):
        return run(compile_expr(p.parse(text), strict, reading), Env(this, aliases or {}))

    assert ev('1 + 2 * 3') == ('ok', 7)
    assert ev('-2 ** 2') == ('ok', 4)
    assert ev('2 ** 3 ** 2') == ('ok', 64)
    assert ev('x / y', {'x': 1, 'y': 0})[0] == 'undefined'
    assert ev('x > 1 and y = "a"', {'x': 2, 'y': 'a'}) == ('ok', True)
    assert ev('x in [1 to 3]!', {'x': 3}) == ('ok', False)
    assert ev('x in ![1 to 3]', {'x': 1}) == ('ok', False)
    assert ev('forall i in xs: @i > 0', {'xs': []}) == ('ok', True)
    assert ev('exists i in xs: @i > 0', {'xs': [0, 2]}) == ('ok', True)
    assert ev('forall i in [1 to 3]: @i in xs', {'xs': [1, 2, 3]}) == ('ok', True)
    assert ev('xs[1] = @A.v', {'xs': [5, 6]}, {'A': {'v': 6}}) == ('ok', True)
    assert ev('xs[2] = 1', {'xs': [5, 6]})[0] == 'undefined'
    assert ev('len({1, 1, 2})') == ('ok', 2)
    assert ev('len({1, 1, 2})', reading=ALL_READINGS[1]) == ('ok', 3)
    assert ev('sum([1 to 4])') == ('ok', 10)
    assert ev('sum([4 to 1])')[0] == 'ambiguous'
    assert ev('int(2.7)') == ('ok', 2) and ev('int(-2.7)', reading=ALL_READINGS[2]) == ('ok', -3)
    assert ev('str(1) = "1"') == ('ok', True)
    assert ev('a or b', {'a': True}, strict=False) == ('ok', True)
    assert ev('a or b', {'a': True})[0] == 'undefined'
    assert ev('not (a implies b) iff (a and not b)', {'a': True, 'b': False}) == ('ok', True)
    assert ev('x = 0.1 + 0.2', {'x': 0.3})[0] == 'fragile'
    assert ev('INF > 1')[0] == 'undefined'
    assert ev('max(xs) - min({3, 1})', {'xs': [4, 9]}) == ('ok', 8)
    assert closed_subterm_undefined(p.parse('x + 1 / 0'))
    assert closed_subterm_undefined(p.parse('x + sqrt(-1)'))
    assert not closed_subterm_undefined(p.parse('x + 1 / y'))
