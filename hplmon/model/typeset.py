"""frozenset model of hpl.types.DataType: a type set is a set of base-type names.
Transcribed from the documentation of the type system (seven base types and five named
unions); nothing here is imported from hpl."""
import itertools

BASE = ('BOOL', 'NUMBER', 'STRING', 'ARRAY', 'RANGE', 'SET', 'MESSAGE')
NAMED = {
    'NONE': frozenset(),
    'PRIMITIVE': frozenset({'BOOL', 'NUMBER', 'STRING'}),
    'ITEM': frozenset({'BOOL', 'NUMBER', 'STRING', 'MESSAGE'}),
    'COMPOUND': frozenset({'ARRAY', 'RANGE', 'SET'}),
    'ANY': frozenset(BASE),
}
for _b in BASE:
    NAMED[_b] = frozenset({_b})

CAN_BE_PROPS = {
    'can_be_bool': 'BOOL',
    'can_be_number': 'NUMBER',
    'can_be_string': 'STRING',
    'can_be_array': 'ARRAY',
    'can_be_set': 'SET',
    'can_be_range': 'RANGE',
    'can_be_message': 'MESSAGE',
}


def all_subsets():
    out = []
    for n in range(128):
        out.append(frozenset(BASE[i] for i in range(7) if n >> i & 1))
    return out


def code(s):
    return sum(1 << BASE.index(b) for b in s)


class Bridge:
    """Maps model sets to real DataType members and back, using only base-member *names*."""

    def __init__(self, DataType):
        self.DT = DataType
        self.base = {b: DataType[b] for b in BASE}
        self.empty = DataType(0)

    def member(self, s):
        m = self.empty
        for b in BASE:
            if b in s:
                m = m | self.base[b]
        return m

    def bits(self, m):
        if not isinstance(m, self.DT):
            raise TypeError(f'not a DataType: {m!r}')
        return frozenset(b for b in BASE if (m & self.base[b]).value != 0)


def model_cast(s, t):
    r = s & t
    if not r:
        raise TypeError('empty intersection')
    return r


def triples(n=128):
    return itertools.product(range(n), repeat=3)
