"""Independent scoping oracle (DESIGN.md Appendix A.4): is an abstract property accepted, rejected
with a sanity error, or is the outcome left open by the property statement ('ambiguous')?"""
from .. import absyn as A

ACCEPT, SANITY, AMBIGUOUS = 'accept', 'sanity', 'ambiguous'


def binding_chain(scope_kind, pat_kind):
    """[(position, tuple of earlier positions it may reference)] in binding order"""
    act = scope_kind in ('after', 'after_until')
    base = ('activator',) if act else ()
    chain = []
    if act:
        chain.append(('activator', ()))
    if pat_kind in ('some', 'no'):
        chain.append(('behaviour', base))
    elif pat_kind == 'requires':
        chain.append(('behaviour', base))
        chain.append(('trigger', base + ('behaviour',)))
    else:
        chain.append(('trigger', base))
        chain.append(('behaviour', base + ('trigger',)))
    if scope_kind in ('until', 'after_until'):
        chain.append(('terminator', base))
    return chain


def quantifier_hygiene(e, enclosing=frozenset()):
    """'ok' | 'sanity' | 'ambiguous' for the quantifiers inside expression e"""
    worst = 'ok'

    def merge(v):
        nonlocal worst
        if v == 'sanity' or (v == 'ambiguous' and worst == 'ok'):
            worst = v if worst != 'sanity' else worst

    def rec(x, enclosing):
        if x[0] == 'quant':
            v, dom, body = x[2], x[3], x[4]
            if v in enclosing:
                merge('sanity')
            if dom == A.var(v):
                merge('ambiguous')
            elif v in A.all_vars(dom):
                # a nested quantifier of the same name inside the domain is left open
                nested = any(q[0] == 'quant' and q[2] == v for q in A.walk(dom))
                merge('ambiguous' if nested else 'sanity')
            if v not in A.free_vars(body):
                # unused, or only used under a nested re-binding (which is itself a sanity error)
                merge('sanity')
            rec(dom, enclosing)
            rec(body, enclosing | {v})
            return
        for k in A.children(x):
            rec(k, enclosing)

    rec(e, enclosing)
    return worst


def verdict(p):
    """p: abstract property.  Returns (ACCEPT | SANITY | AMBIGUOUS, reason)"""
    pos = A.prop_positions(p)
    chain = binding_chain(p[2][1], p[3][1])
    ambiguous = None
    bound = {}
    for name, sees in chain:
        ev = pos[name]
        alts = A.simple_events(ev)
        topics = [a[1] for a in alts]
        if len(set(topics)) != len(topics):
            return SANITY, f'duplicate channel in {name}'
        visible = set()
        for s in sees:
            visible |= bound.get(s, set())
        mine = [a[2] for a in alts if a[2] is not None]
        if len(set(mine)) != len(mine):
            ambiguous = ambiguous or f'one alias on two alternatives of {name}'
        for a in alts:
            if a[3] is None:
                continue
            hy = quantifier_hygiene(a[3])
            if hy == 'sanity':
                return SANITY, f'quantifier hygiene in {name}'
            if hy == 'ambiguous':
                ambiguous = ambiguous or f'quantifier domain in {name}'
            bound_vars = {q[2] for q in A.walk(a[3]) if q[0] == 'quant'}
            all_aliases_here = set(mine)
            if bound_vars & (visible | all_aliases_here | {x for s in bound.values() for x in s}):
                ambiguous = ambiguous or 'a name is both an alias and a bound variable'
            ext = A.free_vars(a[3]) - ({a[2]} if a[2] else set())
            if not ext <= visible:
                return SANITY, f'{name} references {sorted(ext - visible)} not bound earlier'
        if name == 'terminator':
            # re-binding an activator alias is an error; re-binding a pattern alias is left open
            if set(mine) & visible:
                return SANITY, 'terminator re-binds an activator alias'
            others = set()
            for k, v in bound.items():
                if k != 'activator':
                    others |= v
            if set(mine) & others:
                ambiguous = ambiguous or 'terminator re-binds a pattern alias'
        else:
            if set(mine) & visible:
                return SANITY, f'{name} re-binds an alias'
        bound[name] = set(mine)
    if ambiguous:
        return AMBIGUOUS, ambiguous
    return ACCEPT, ''


def selftest():
    def ev(t, alias=None, ref=None):
        pred = None if ref is None else ('bin', '>', ('field', A.var(ref), 'f'), A.num('0'))
        return ('ev', t, alias, pred)

    def prop(sk, pk, **evs):
        from .. import gen
        return gen.assemble(sk, pk, evs)

    assert verdict(prop('after', 'causes', activator=ev('a', 'A'), trigger=ev('b', 'B', 'A'), behaviour=ev('c', None, 'B')))[0] == ACCEPT
    assert verdict(prop('after', 'causes', activator=ev('a', 'A'), trigger=ev('b', None, 'C'), behaviour=ev('c')))[0] == SANITY
    assert verdict(prop('globally', 'causes', trigger=ev('b', None, 'B'), behaviour=ev('c', 'B')))[0] == SANITY
    assert verdict(prop('globally', 'requires', behaviour=ev('b', 'B'), trigger=ev('c', None, 'B')))[0] == ACCEPT
    assert verdict(prop('globally', 'requires', behaviour=ev('b', None, 'C'), trigger=ev('c', 'C')))[0] == SANITY
    assert verdict(prop('after_until', 'no', activator=ev('a', 'A'), behaviour=ev('b', 'B'), terminator=ev('q', None, 'B')))[0] == SANITY
    assert verdict(prop('after_until', 'no', activator=ev('a', 'A'), behaviour=ev('b', 'B'), terminator=ev('q', None, 'A')))[0] == ACCEPT
    assert verdict(prop('after', 'no', activator=ev('a', 'A'), behaviour=ev('b', 'A')))[0] == SANITY
    assert verdict(prop('globally', 'no', behaviour=('disj', (ev('a'), ev('a')))))[0] == SANITY
    assert verdict(prop('globally', 'no', behaviour=ev('a', 'A', 'A')))[0] == ACCEPT
    assert verdict(prop('after_until', 'no', activator=ev('a'), behaviour=ev('b', 'B'), terminator=ev('q', 'B')))[0] == AMBIGUOUS
    q = ('quant', 'forall', 'i', A.fld('xs'), ('bin', '>', A.fld('x'), A.num('0')))
    assert quantifier_hygiene(q) == 'sanity'
    q = ('quant', 'forall', 'i', ('set', (A.var('i'),)), ('bin', '>', A.var('i'), A.num('0')))
    assert quantifier_hygiene(q) == 'sanity'
    q = ('quant', 'forall', 'i', A.fld('xs'), ('quant', 'exists', 'i', A.fld('ys'), ('bin', '>', A.var('i'), A.num('0'))))
    assert quantifier_hygiene(q) == 'sanity'
    q = ('bin', 'and', ('quant', 'forall', 'i', A.fld('xs'), ('bin', '>', A.var('i'), A.num('0'))),
         ('quant', 'exists', 'i', A.fld('ys'), ('bin', '<', A.var('i'), A.num('0'))))
    assert quantifier_hygiene(q) == 'ok'
