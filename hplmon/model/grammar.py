"""Independent recogniser for HPL over *token sequences* (transcribed from the .lark files,
DESIGN.md Appendix A.1).  General set-of-end-positions parsing with memoisation, so that a
'lenient' reading (a keyword token may also stand for a name wherever a name is admissible)
can be compared with the 'strict' one (a token equal to a keyword is that keyword only).

verdict(tokens, start) -> 'accept' | 'reject' | 'ambiguous'
    ambiguous = the two readings disagree: the text's well-formedness hinges on using a
    keyword as a name, which the property statement leaves open -> not judged.
"""
import re

KEYWORDS = frozenset(
    'not implies iff or and forall exists in to as within no some requires causes forbids after until '
    'globally True False PI INF NAN E'.split()
)
NUMBER_RE = re.compile(r'^(\d+\.\d*([eE][+-]?\d+)?|\.\d+([eE][+-]?\d+)?|\d+[eE][+-]?\d+|\d+)$')
CNAME_RE = re.compile(r'^[A-Za-z_][A-Za-z0-9_]*$')
CHANNEL_RE = re.compile(r'^[/~]?[a-zA-Z][0-9a-zA-Z_]*(/[a-zA-Z][0-9a-zA-Z_]*)*$')
STRING_RE = re.compile(r'^"([^"\\\n]|\\.)*"$')
RELOPS = ('=', '!=', '<', '<=', '>', '>=', 'in')


class Recogniser:
    def __init__(self, tokens, lenient=False):
        self.t = list(tokens)
        self.n = len(self.t)
        self.lenient = lenient
        self.memo = {}

    # -- terminals --------------------------------------------------------------------------
    def tok(self, i):
        return self.t[i] if i < self.n else None

    def is_kw(self, i, kw):
        return i < self.n and self.t[i] == kw

    def is_name(self, i):
        if i >= self.n:
            return False
        x = self.t[i]
        return bool(CNAME_RE.match(x)) and (self.lenient or x not in KEYWORDS)

    def is_channel(self, i):
        if i >= self.n:
            return False
        x = self.t[i]
        return bool(CHANNEL_RE.match(x)) and (self.lenient or x not in KEYWORDS)

    def is_number(self, i):
        return i < self.n and bool(NUMBER_RE.match(self.t[i]))

    def is_string(self, i):
        return i < self.n and bool(STRING_RE.match(self.t[i]))

    def is_varref(self, i):
        if i >= self.n:
            return False
        x = self.t[i]
        return x.startswith('@') and bool(CNAME_RE.match(x[1:]))

    # -- combinators ------------------------------------------------------------------------
    def rule(self, name, i):
        key = (name, i)
        r = self.memo.get(key)
        if r is None:
            self.memo[key] = frozenset()  # guards against accidental left recursion
            r = frozenset(getattr(self, 'p_' + name)(i))
            self.memo[key] = r
        return r

    def chain(self, sub, ops, i):
        """sub (op sub)*"""
        ends = set(self.rule(sub, i))
        frontier = set(ends)
        while frontier:
            new = set()
            for e in frontier:
                if e < self.n and self.t[e] in ops:
                    for e2 in self.rule(sub, e + 1):
                        if e2 not in ends:
                            new.add(e2)
            ends |= new
            frontier = new
        return ends

    # -- expressions ------------------------------------------------------------------------
    def p_condition(self, i):
        return self.chain('disjunction', ('implies', 'iff'), i)

    def p_disjunction(self, i):
        return self.chain('conjunction', ('or',), i)

    def p_conjunction(self, i):
        return self.chain('logic', ('and',), i)

    def p_logic(self, i):
        out = set()
        if self.is_kw(i, 'not'):
            out |= self.rule('logic', i + 1)
        if self.tok(i) in ('forall', 'exists') and self.is_name(i + 1) and self.is_kw(i + 2, 'in'):
            for e in self.rule('atom', i + 3):
                if self.is_kw(e, ':'):
                    out |= self.rule('logic', e + 1)
        out |= self.rule('atomic', i)
        return out

    def p_atomic(self, i):
        out = set()
        for e in self.rule('expr', i):
            out.add(e)
            if self.tok(e) in RELOPS:
                out |= self.rule('expr', e + 1)
        return out

    def p_expr(self, i):
        return self.chain('term', ('+', '-'), i)

    def p_term(self, i):
        return self.chain('factor', ('*', '/'), i)

    def p_factor(self, i):
        return self.chain('exponent', ('**',), i)

    def p_exponent(self, i):
        out = set(self.rule('atom', i))
        if self.is_kw(i, '-'):
            out |= self.rule('exponent', i + 1)
        if self.is_kw(i, '('):
            for e in self.rule('condition', i + 1):
                if self.is_kw(e, ')'):
                    out.add(e + 1)
        return out

    def p_atom(self, i):
        out = set()
        x = self.tok(i)
        if x is None:
            return out
        if x in ('True', 'False', 'PI', 'INF', 'NAN', 'E'):
            out.add(i + 1)
        if self.is_string(i) or self.is_number(i):
            out.add(i + 1)
        if self.is_name(i) and self.is_kw(i + 1, '('):
            for e in self.rule('expr', i + 2):
                if self.is_kw(e, ')'):
                    out.add(e + 1)
        if x == '{':
            for e in self.chain('expr', (',',), i + 1):
                if self.is_kw(e, '}'):
                    out.add(e + 1)
        if x in ('[', '!['):
            for e in self.rule('expr', i + 1):
                if self.is_kw(e, 'to'):
                    for e2 in self.rule('expr', e + 1):
                        if self.tok(e2) in (']', ']!'):
                            out.add(e2 + 1)
        out |= self.rule('reference', i)
        return out

    def p_reference(self, i):
        if not (self.is_varref(i) or self.is_name(i)):
            return set()
        ends = {i + 1}
        frontier = {i + 1}
        while frontier:
            new = set()
            for e in frontier:
                if self.is_kw(e, '.') and self.is_name(e + 1):
                    new.add(e + 2)
                if self.is_kw(e, '['):
                    for e2 in self.rule('expr', e + 1):
                        if self.is_kw(e2, ']'):
                            new.add(e2 + 1)
            new -= ends
            ends |= new
            frontier = new
        return ends

    def p_predicate(self, i):
        out = set()
        if self.is_kw(i, '{'):
            for e in self.rule('condition', i + 1):
                if self.is_kw(e, '}'):
                    out.add(e + 1)
        return out

    # -- events and properties --------------------------------------------------------------
    def p_simple_event(self, i):
        out = set()
        if not self.is_channel(i):
            return out
        starts = {i + 1}
        if self.is_kw(i + 1, 'as') and self.is_name(i + 2):
            starts.add(i + 3)
        for s in starts:
            out.add(s)
            out |= self.rule('predicate', s)
        return out

    def p_event(self, i):
        out = set(self.rule('simple_event', i))
        if self.is_kw(i, '('):
            ends = self.rule('simple_event', i + 1)
            # at least one 'or'
            seen = set()
            frontier = set(ends)
            first = True
            while frontier:
                new = set()
                for e in frontier:
                    if self.is_kw(e, 'or'):
                        for e2 in self.rule('simple_event', e + 1):
                            if e2 not in seen:
                                new.add(e2)
                seen |= new
                frontier = new
            for e in seen:
                if self.is_kw(e, ')'):
                    out.add(e + 1)
        return out

    def p_timebound(self, i):
        if self.is_kw(i, 'within') and self.is_number(i + 1) and self.tok(i + 2) in ('s', 'ms'):
            return {i + 3}
        return set()

    def p_pattern(self, i):
        out = set()
        ends = set()
        if self.tok(i) in ('some', 'no'):
            ends |= self.rule('event', i + 1)
        for e in self.rule('event', i):
            if self.tok(e) in ('causes', 'forbids', 'requires'):
                ends |= self.rule('event', e + 1)
        for e in ends:
            out.add(e)
            out |= self.rule('timebound', e)
        return out

    def p_scope(self, i):
        out = set()
        if self.is_kw(i, 'globally'):
            out.add(i + 1)
        if self.is_kw(i, 'after'):
            for e in self.rule('event', i + 1):
                out.add(e)
                if self.is_kw(e, 'until'):
                    out |= self.rule('event', e + 1)
        if self.is_kw(i, 'until'):
            out |= self.rule('event', i + 1)
        return out

    def p_metadata(self, i):
        """zero or more annotations"""
        ends = {i}
        frontier = {i}
        while frontier:
            new = set()
            for e in frontier:
                if self.is_kw(e, '#') and self.is_kw(e + 2, ':'):
                    k = self.tok(e + 1)
                    if k == 'id' and self.is_name(e + 3):
                        new.add(e + 4)
                    if k in ('title', 'description') and self.is_string(e + 3):
                        new.add(e + 4)
            new -= ends
            ends |= new
            frontier = new
        return ends

    def p_property(self, i):
        out = set()
        for m in self.rule('metadata', i):
            for e in self.rule('scope', m):
                if self.is_kw(e, ':'):
                    out |= self.rule('pattern', e + 1)
        return out

    def p_file(self, i):
        ends = set(self.rule('property', i))
        frontier = set(ends)
        while frontier:
            new = set()
            for e in frontier:
                new |= self.rule('property', e)
            new -= ends
            ends |= new
            frontier = new
        return ends

    def accepts(self, start):
        name = {'expression': 'condition'}.get(start, start)
        return self.n in self.rule(name, 0)


def recognise(tokens, start, lenient=False):
    return Recogniser(tokens, lenient).accepts(start)


def duplicate_annotation(tokens):
    """a property's annotation block names one key twice (rejected with a syntax error, cf. C18)"""
    i, n = 0, len(tokens)
    while i < n:
        if tokens[i] == '#':
            keys = set()
            while i + 3 < n + 1 and i < n and tokens[i] == '#' and i + 2 < n and tokens[i + 2] == ':':
                k = tokens[i + 1]
                if k in keys:
                    return True
                keys.add(k)
                i += 4
        else:
            i += 1
    return False


def verdict(tokens, start):
    s = recognise(tokens, start, False)
    if s:
        return 'reject' if duplicate_annotation(tokens) else 'accept'
    l = recognise(tokens, start, True)
    return 'ambiguous' if l else 'reject'


def verdict_lexing_aware(tokens, start):
    """verdict(), but a rejected sequence is 'ambiguous' when a channel-name token (a/b, /b) that landed in an
    expression reads equally well as a division (x /b  ==  x / b under hpl's contextual lexing)"""
    v = verdict(tokens, start)
    if v != 'reject':
        return v
    idxs = [i for i, t in enumerate(tokens) if len(t) > 1 and '/' in t and t[0] != '"']
    for chosen in [[i] for i in idxs] + ([idxs] if len(idxs) > 1 else []):
        alt = []
        for i, t in enumerate(tokens):
            if i in chosen:
                for j, piece in enumerate(t.split('/')):
                    if j:
                        alt.append('/')
                    if piece:
                        alt.append(piece)
            else:
                alt.append(t)
        if verdict(alt, start) != 'reject':
            return 'ambiguous'
    return 'reject'


def selftest():
    def T(s):
        return s.split()

    assert verdict(T('a + b < c'), 'expression') == 'accept'
    assert verdict(T('a + < c'), 'expression') == 'reject'
    assert verdict(T('not a = b and forall i in xs : @i > 0'), 'expression') == 'accept'
    assert verdict(T('forall i in ( xs ) : @i'), 'expression') == 'reject'
    assert verdict(T('a < b < c'), 'expression') == 'reject'
    assert verdict(T('- - a ** - b'), 'expression') == 'accept'
    assert verdict(T('{ 1 , 2 }'), 'expression') == 'accept'
    assert verdict(T('{ }'), 'expression') == 'reject'
    assert verdict(T('![ 1 to x ]!'), 'expression') == 'accept'
    assert verdict(T('f ( a , b )'), 'expression') == 'reject'
    assert verdict(T('@A . xs [ 1 ] . y'), 'expression') == 'accept'
    assert verdict(T('no = 1'), 'expression') == 'ambiguous'
    assert verdict(T('{ a }'), 'predicate') == 'accept'
    assert verdict(T('globally : no a'), 'property') == 'accept'
    assert verdict(T('globally : no no'), 'property') == 'ambiguous'
    assert verdict(T('globally : a b'), 'property') == 'reject'
    assert verdict(T('after ( a or b as B { x } ) until c : d requires e within 3 ms'), 'property') == 'accept'
    assert verdict(T('after ( a ) : some b'), 'property') == 'reject'
    assert verdict(T('# id : p1 # title : "t" globally : some b within .5 s'), 'property') == 'accept'
    assert verdict(T('globally : some b within 5'), 'property') == 'reject'
    assert verdict(T('globally : some b globally : no c'), 'file') == 'accept'
    assert verdict(T('globally : some b globally :'), 'file') == 'reject'
    assert verdict([], 'file') == 'reject'
    assert verdict_lexing_aware(T('x /b > 1'), 'expression') == 'ambiguous'
    assert verdict(T('# id : a # id : b globally : no x'), 'property') == 'reject'
    assert verdict(T('# id : a globally : no x # id : a globally : no y'), 'file') == 'accept'
    assert verdict(T('( a or b ) causes ( c or d or e )'), 'pattern') == 'accept'
