"""Field-by-field JSON mirror of an hpl AST, written over the attrs field lists (independent of
attrs.asdict and of hpl.cli): enums by value, non-finite floats as null, tuples as lists."""
import enum
import math


def mirror(o):
    if hasattr(type(o), '__attrs_attrs__'):
        return {a.name: mirror(getattr(o, a.name)) for a in type(o).__attrs_attrs__}
    if isinstance(o, enum.Enum):
        return mirror(o.value)
    if isinstance(o, float) and (math.isinf(o) or math.isnan(o)):
        return None
    if isinstance(o, (list, tuple, set, frozenset)):
        return [mirror(x) for x in o]
    if isinstance(o, dict):
        return {str(k): mirror(v) for k, v in o.items()}
    return o


def reject_constant(name):
    raise ValueError(f'non-standard JSON constant {name}')


def selftest():
    import json

    class E(enum.Enum):
        A = 3

    assert mirror({'a': (1, float('inf')), 'b': E.A}) == {'a': [1, None], 'b': 3}
    try:
        json.loads('[NaN]', parse_constant=reject_constant)
        raise AssertionError('NaN accepted')
    except ValueError:
        pass
