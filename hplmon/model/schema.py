"""Independent path resolution of hpl reference nodes against the dict model of a message schema
(types of gen.py: ('bool',) ('num',) ('str',) ('arr', elem, length) ('msg', fields, consts))."""

KIND = {'bool': 'BOOL', 'num': 'NUMBER', 'str': 'STRING', 'arr': 'ARRAY', 'msg': 'MESSAGE'}


class Fault(Exception):
    def __init__(self, kind, what):
        super().__init__(f'{kind}: {what}')
        self.kind = kind
        self.what = what


def resolve(node, this, aliases):
    """Model type of the accessor/reference node.  Raises Fault(kind, leaf-name-or-index)."""
    cls = type(node).__name__
    if cls == 'HplThisMessage':
        if this is None:
            raise Fault('no-current-message', 'this')
        return this
    if cls == 'HplVarReference':
        if node.name not in aliases:
            raise Fault('unknown-alias', node.name)
        return aliases[node.name]
    if cls == 'HplFieldAccess':
        t = resolve(node.message, this, aliases)
        if t[0] != 'msg':
            raise Fault('field-of-non-message', str(node.field))
        name = str(node.field)
        if name in t[1]:
            return t[1][name]
        if name in t[2]:
            return t[2][name][0]
        raise Fault('unknown-field', name)
    if cls == 'HplArrayAccess':
        t = resolve(node.array, this, aliases)
        if t[0] != 'arr':
            raise Fault('index-of-non-array', str(node.array))
        idx = node.index
        if type(idx).__name__ == 'HplLiteral' and isinstance(idx.value, (int, float)) and not isinstance(idx.value, bool):
            # any number literal is a literal index, however it is spelled (3, 3.0, 3e0)
            if t[2] >= 0 and idx.value >= t[2]:
                raise Fault('index-out-of-range', str(idx.value))
        return t[1]
    raise Fault('not-a-reference', cls)


def reference_nodes(root, bound=frozenset()):
    """every maximal and inner accessor node of an expression whose base is this or a free variable
    (not a quantified variable), including those inside index expressions, in pre-order"""
    out = []

    def base_name(h):
        while type(h).__name__ in ('HplFieldAccess', 'HplArrayAccess'):
            h = h.message if type(h).__name__ == 'HplFieldAccess' else h.array
        if type(h).__name__ == 'HplVarReference':
            return h.name
        return None

    def rec(h, bound):
        cls = type(h).__name__
        if cls in ('HplFieldAccess', 'HplArrayAccess'):
            if base_name(h) not in bound:
                out.append(h)
        if cls == 'HplQuantifier':
            rec(h.domain, bound)
            rec(h.condition, bound | {h.variable})
            return
        for k in _kids(h):
            rec(k, bound)

    rec(root, bound)
    return out


def _kids(h):
    cls = type(h).__name__
    if cls == 'HplFieldAccess':
        return (h.message,)
    if cls == 'HplArrayAccess':
        return (h.array, h.index)
    if cls == 'HplSet':
        return tuple(h.values)
    if cls == 'HplRange':
        return (h.min_value, h.max_value)
    if cls == 'HplUnaryOperator':
        return (h.operand,)
    if cls == 'HplBinaryOperator':
        return (h.operand1, h.operand2)
    if cls == 'HplQuantifier':
        return (h.domain, h.condition)
    if cls == 'HplFunctionCall':
        return tuple(h.arguments)
    return ()


def check_expression(root, this, aliases, bridge):
    """list of Fault for every reference of root that the schema does not support (criteria a-c of
    C17: path resolves, literal index within a fixed length, stored type set contains the kind)"""
    faults = []
    for node in reference_nodes(root):
        try:
            t = resolve(node, this, aliases)
        except Fault as f:
            faults.append(f)
            continue
        kind = KIND[t[0]]
        if kind not in bridge.bits(node.data_type):
            faults.append(Fault('type-mismatch', str(node)))
    return faults


def leaf_fields_model(t, prefix=''):
    out = {}
    for name, ft in t[1].items():
        if ft[0] == 'msg':
            out.update(leaf_fields_model(ft, prefix + name + '.'))
        else:
            out[prefix + name] = ft
    return out


def selftest():
    from hpl.parser import expression_parser
    from hpl.types import DataType

    from . import typeset

    br = typeset.Bridge(DataType)
    this = ('msg', {'x': ('num',), 'xs': ('arr', ('num',), 2), 'm': ('msg', {'s': ('str',)}, {})}, {'K': (('num',), 3)})
    p = expression_parser()
    assert check_expression(p.parse('x + xs[1] > K and m.s = "a"'), this, {}, br) == []
    f = check_expression(p.parse('xs[2] > 0'), this, {}, br)
    assert [x.kind for x in f] == ['index-out-of-range']
    f = check_expression(p.parse('m.nope = 1'), this, {}, br)
    assert [x.kind for x in f] == ['unknown-field'] and f[0].what == 'nope'
    f = check_expression(p.parse('xs[m.s] > 0'), this, {}, br)
    assert [x.kind for x in f] == ['type-mismatch'], f
    f = check_expression(p.parse('x.y > 0'), this, {}, br)
    assert 'field-of-non-message' in [x.kind for x in f]
    assert leaf_fields_model(this) == {'x': ('num',), 'xs': ('arr', ('num',), 2), 'm.s': ('str',)}
